//! C01 — native encode/decode round-trip is the identity, whatever ran before on the thread.
use crate::corpus::registry::{self as reg, DecOut, RtOut, RtStatus};
use crate::ctx::{hex, on_thread, Ctx};
use crate::gen::hostile;
use crate::model::wire::decode;
use crate::rng::{hash_str, Rng};
use candid::DecoderConfig;
use serde_json::json;

#[derive(Clone, Debug)]
enum Op {
    Derive(usize),
    RoundTrip(usize, u64),
    EncodeOnly(usize, u64, usize),
    FailedDecode(usize, u64),
    NewBuilder,
    Untyped(usize, u64),
    DecodeForeign(usize, usize, u64),
}

fn gen_history(rng: &mut Rng, n_types: usize) -> Vec<Op> {
    let n = match rng.below(4) {
        0 => 0,
        1 => 1 + rng.usize(2),
        _ => 1 + rng.usize(12),
    };
    (0..n)
        .map(|_| {
            let j = rng.usize(n_types);
            match rng.below(8) {
                0 => Op::Derive(j),
                1 | 2 => Op::RoundTrip(j, rng.next()),
                3 => Op::EncodeOnly(j, rng.next(), 1 + rng.usize(3)),
                4 => Op::FailedDecode(j, rng.next()),
                5 => Op::NewBuilder,
                6 => Op::Untyped(j, rng.next()),
                _ => Op::DecodeForeign(j, rng.usize(n_types), rng.next()),
            }
        })
        .collect()
}

/// history operations on hostile bytes are metered: unmetered decoding is unbounded by design
fn quota() -> DecoderConfig {
    let mut c = DecoderConfig::new();
    c.set_decoding_quota(200_000);
    c
}

fn run_history(ops: &[Op]) {
    for op in ops {
        match op {
            Op::Derive(j) => {
                reg::with(*j, |t| {
                    let _ = crate::ctx::catch(|| t.ty());
                });
            }
            Op::RoundTrip(j, s) => {
                reg::with(*j, |t| {
                    let _ = t.roundtrip(&mut Rng::new(*s), 12);
                });
            }
            Op::EncodeOnly(j, s, n) => {
                reg::with(*j, |t| {
                    let _ = t.encode_gen(&mut Rng::new(*s), 12, *n);
                });
            }
            Op::FailedDecode(j, s) => {
                let mut r = Rng::new(*s);
                let bytes = reg::with(*j, |t| t.encode_gen(&mut r, 12, 1)).map(|x| x.0).unwrap_or_default();
                let bad = hostile::mutate(&mut r, &bytes);
                reg::with(*j, |t| {
                    let _ = t.decode(&bad, &quota());
                });
            }
            Op::NewBuilder => {
                let _ = candid::ser::IDLBuilder::new();
            }
            Op::Untyped(j, s) => {
                let bytes = reg::with(*j, |t| t.encode_gen(&mut Rng::new(*s), 12, 2)).map(|x| x.0).unwrap_or_default();
                let _ = crate::ctx::catch(|| candid::IDLArgs::from_bytes_with_config(&bytes, &quota()));
            }
            Op::DecodeForeign(j, k, s) => {
                // a message of type j decoded at type k (usually fails half-way)
                let bytes = reg::with(*j, |t| t.encode_gen(&mut Rng::new(*s), 12, 1)).map(|x| x.0).unwrap_or_default();
                reg::with(*k, |t| {
                    let _ = t.decode(&bytes, &quota());
                });
            }
        }
    }
}

fn status_str(o: &RtOut) -> String {
    match &o.status {
        RtStatus::Ok => "ok".into(),
        RtStatus::EncodeErr(e) => format!("encode-error: {}", e.lines().next().unwrap_or("")),
        RtStatus::DecodeErr(e) => format!("decode-error: {}", e.lines().next().unwrap_or("")),
        RtStatus::Mismatch => "decoded value differs".into(),
        RtStatus::Leftover(e) => format!("leftover: {}", e.lines().next().unwrap_or("")),
        RtStatus::Panic(p) => format!("panic at {}: {}", p.location, p.message.lines().next().unwrap_or("")),
    }
}
fn status_class(o: &RtOut) -> &'static str {
    match &o.status {
        RtStatus::Ok => "ok",
        RtStatus::EncodeErr(_) => "encode-error",
        RtStatus::DecodeErr(_) => "decode-error",
        RtStatus::Mismatch => "roundtrip-mismatch",
        RtStatus::Leftover(_) => "leftover",
        RtStatus::Panic(_) => "panic",
    }
}

pub fn run(ctx: &mut Ctx) {
    let n_types = reg::len();
    ctx.stats
        .extra
        .insert("corpus_types".into(), json!(n_types));
    ctx.cases("roundtrip-with-history", 1.0, |ctx, rng| {
        let i = rng.usize(n_types);
        let seed = rng.next();
        let fuel = *rng.pick(&[1i64, 6, 20, 60]);
        let hist = gen_history(rng, n_types);
        let (name, kind) = reg::with(i, |t| (t.name(), t.kind()));
        // fresh thread, empty history
        let base = on_thread(32 << 20, move || reg::with(i, |t| t.roundtrip(&mut Rng::new(seed), fuel)));
        // fresh thread, history first
        let h2 = hist.clone();
        let probe = on_thread(32 << 20, move || {
            run_history(&h2);
            reg::with(i, |t| t.roundtrip(&mut Rng::new(seed), fuel))
        });
        let (base, probe) = match (base, probe) {
            (Ok(b), Ok(p)) => (b, p),
            (Err(p), _) | (_, Err(p)) => {
                ctx.violation(
                    &format!("panic-outside-catch|{name}|{}", p.location),
                    &p.message,
                    json!({"type": name, "history": format!("{hist:?}")}),
                );
                return;
            }
        };
        ctx.count(&format!("cover:kind:{kind}"));
        let input = |o: &RtOut| {
            json!({
                "type": name, "value_seed": seed, "fuel": fuel,
                "value": o.model.to_string().chars().take(600).collect::<String>(),
                "decoded": o.decoded_model.as_ref().map(|m| m.to_string().chars().take(600).collect::<String>()),
                "bytes": hex(&o.bytes), "history": format!("{hist:?}"),
            })
        };
        if !matches!(base.status, RtStatus::Ok) {
            ctx.violation(
                &format!("{}|{name}", status_class(&base)),
                &format!("round-trip in a fresh thread: {}", status_str(&base)),
                input(&base),
            );
        }
        if !matches!(probe.status, RtStatus::Ok) && status_class(&probe) != status_class(&base) {
            ctx.violation(
                &format!("after-history|{}|{name}", status_class(&probe)),
                &format!(
                    "round-trip after a history of {} calls: {} (fresh thread: {})",
                    hist.len(),
                    status_str(&probe),
                    status_str(&base)
                ),
                input(&probe),
            );
        }
        // hash-based containers iterate in a per-instance random order: their bytes are compared by meaning only
        let hashed = name.contains("HashMap") || name.contains("HashSet");
        if probe.bytes != base.bytes && !hashed {
            // the encoding may legitimately differ only in ... nothing: same value, same type, same thread-state-free result
            let semantically_same = match (decode(&probe.bytes), decode(&base.bytes)) {
                (Ok(a), Ok(b)) => a.values == b.values,
                _ => false,
            };
            ctx.violation(
                &format!(
                    "history-dependent-bytes|{}|{name}",
                    if semantically_same { "same-meaning" } else { "different-meaning" }
                ),
                "the same value of the same type encoded to different bytes depending on earlier calls on the thread",
                json!({"type": name, "fresh": hex(&base.bytes), "after_history": hex(&probe.bytes), "history": format!("{hist:?}")}),
            );
        }
        let nonempty = match &base.model {
            crate::model::RValue::Vec(v) => !v.is_empty(),
            crate::model::RValue::Null => false,
            _ => true,
        };
        if nonempty {
            let shape_h: Vec<&'static str> = hist
                .iter()
                .map(|o| match o {
                    Op::Derive(_) => "d",
                    Op::RoundTrip(..) => "r",
                    Op::EncodeOnly(..) => "e",
                    Op::FailedDecode(..) => "f",
                    Op::NewBuilder => "n",
                    Op::Untyped(..) => "u",
                    Op::DecodeForeign(..) => "x",
                })
                .collect();
            ctx.nontrivial(hash_str(&format!("{name}|{}|{}", base.bytes.len(), shape_h.concat())));
        }
        ctx.sample(|| input(&base));
    });
    let _ = DecOut::Err(String::new());
}
