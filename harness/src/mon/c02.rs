//! C02 — decoding at an expected type is exactly the specification's coercion.
use super::common::*;
use crate::conv::*;
use crate::ctx::{catch, hex, Ctx};
use crate::gen::types::*;
use crate::gen::values::*;
use crate::model::coerce::*;
use crate::model::misc::label_hash;
use crate::model::wire::*;
use crate::model::*;
use crate::rng::{hash_str, Rng};
use candid::IDLArgs;
use serde_json::json;

pub enum ModelOutcome {
    Malformed(String),
    Over(String),
    Fail(String),
    Ok(Vec<RValue>),
}

pub fn model_at(bytes: &[u8], eenv: &REnv, ets: &[RType], hits: &mut Hits) -> (ModelOutcome, Option<Decoded>) {
    let d = match decode(bytes) {
        Ok(d) => d,
        Err(DecErr::Malformed(m)) => return (ModelOutcome::Malformed(m), None),
        Err(DecErr::OverLimit(m)) => return (ModelOutcome::Over(m), None),
    };
    let wenv = normalize_wire(&d.env);
    let r = {
        let mut c = Coercer::new(&wenv, eenv, hits);
        c.coerce_args(&d.values, &d.types, ets)
    };
    match r {
        Ok(vs) => (ModelOutcome::Ok(vs), Some(d)),
        Err(f) if f.1 => (ModelOutcome::Over(f.0), Some(d)),
        Err(f) => (ModelOutcome::Fail(f.0), Some(d)),
    }
}

fn uses_label(env: &REnv, ts: &[RType], names: &Names, what: &str) -> bool {
    let id = label_hash(what);
    names.get(&id).map(|s| s == what).unwrap_or(false) && {
        let s = format!("{env} {ts:?}");
        s.contains(&id.to_string())
    }
}

pub fn one_case(ctx: &mut Ctx, rng: &mut Rng, cfg: &TypeCfg, mutate: bool) {
    let Some(wc) = gen_wire_case(rng, cfg, 3, 30, true) else {
        ctx.count("skipped:unencodable");
        return;
    };
    let (eenv, ets, kind) = gen_expected(rng, cfg, &wc);
    judge_case(ctx, rng, wc, eenv, ets, kind, mutate);
}

/// Small-scope family: wire and expected environments of two mutually referring definitions each, drawn from
/// the catalogue of C05 (so that they differ in a leaf, an optional field, a function type ...), and a message
/// of several arguments over the same definitions — plain, below `opt`, and as results of function and
/// service references — so that one decoder instance answers several related subtype questions in a row.
fn small_scope_case(ctx: &mut Ctx, rng: &mut Rng) {
    let (a, b) = (RType::Ref(0), RType::Ref(1));
    let cat = super::c05::catalogue(&a, &b, true);
    let wi = [rng.usize(cat.len()), rng.usize(cat.len())];
    let ei: Vec<usize> = wi.iter().map(|i| if rng.chance(2, 5) { *i } else { rng.usize(cat.len()) }).collect();
    let wenv = REnv(vec![cat[wi[0]].clone(), cat[wi[1]].clone()]);
    let eenv = REnv(vec![cat[ei[0]].clone(), cat[ei[1]].clone()]);
    let hp = crate::model::misc::label_hash;
    let payloads = |x: &RType, y: &RType| -> Vec<RType> {
        vec![
            x.clone(),
            y.clone(),
            RType::vec(x.clone()),
            RType::opt(RType::vec(x.clone())),
            RType::record(vec![(hp("p"), RType::opt(x.clone())), (hp("q"), y.clone())]),
            RType::record(vec![(hp("p"), RType::opt(RType::vec(x.clone()))), (hp("q"), y.clone())]),
            RType::record(vec![(hp("p"), RType::opt(RType::record(vec![(hp("x"), x.clone())]))), (hp("q"), y.clone())]),
            RType::variant(vec![(hp("p"), RType::opt(y.clone())), (hp("q"), x.clone())]),
        ]
    };
    let pl = payloads(&a, &b);
    let nargs = 1 + rng.usize(4);
    let vg = ValGen::new(&wenv);
    let mut fuel = 25i64;
    let (mut wts, mut ets, mut vals) = (Vec::new(), Vec::new(), Vec::new());
    for _ in 0..nargs {
        let j = rng.usize(pl.len());
        let je = if rng.chance(4, 5) { j } else { rng.usize(pl.len()) };
        let form = rng.below(4);
        let build = |p: &RType| -> RType {
            match form {
                0 => p.clone(),
                1 => RType::func(vec![], vec![p.clone()], vec![]),
                2 => RType::func(vec![p.clone()], vec![], vec![Mode::Query]),
                _ => RType::service(vec![("m".into(), RType::func(vec![], vec![p.clone()], vec![]))]),
            }
        };
        let (mut wt, mut et) = (build(&pl[j]), build(&pl[je]));
        if rng.bool() {
            wt = RType::opt(wt);
            et = RType::opt(et);
        } else if rng.chance(1, 4) {
            et = RType::opt(et);
        }
        if !encodable(&wenv, &wt) {
            continue;
        }
        let Some(v) = vg.gen(rng, &wt, &mut fuel) else { continue };
        wts.push(wt);
        ets.push(et);
        vals.push(v);
    }
    if wts.is_empty() {
        ctx.count("skipped:unencodable");
        return;
    }
    let opts = EncOpts::default();
    let Ok(bytes) = encode(&wenv, &wts, &vals, &opts, Some(rng)) else {
        ctx.count("skipped:unencodable");
        return;
    };
    ctx.count("cover:small-scope-message");
    let wc = WireCase { env: wenv, types: wts, values: vals, bytes, opts };
    judge_case(ctx, rng, wc, eenv, ets, ExpectKind::Mixed, false);
}

fn judge_case(ctx: &mut Ctx, rng: &mut Rng, wc: WireCase, eenv: REnv, ets: Vec<RType>, kind: ExpectKind, mutate: bool) {
    let names = if rng.chance(1, 4) {
        gen_names(rng, &eenv, &ets)
    } else {
        Names::new()
    };
    let mutated = mutate && rng.chance(1, 3);
    let bytes = if !mutated {
        wc.bytes.clone()
    } else if rng.chance(1, 3) {
        // aimed at the values: the header stays intact, one value byte becomes an impossible bool (a 0/1 byte set to 2..)
        // or an impossible UTF-8 / length byte. Most of these land in a leaf; whether the leaf is read, skipped as a
        // surplus field or argument, or sits below an option that gives up is decided by the expected type
        let mut b = wc.bytes.clone();
        let hl = crate::model::wire::decode(&b).map(|d| d.header_len).unwrap_or(0).min(b.len());
        if b.len() > hl {
            let cands: Vec<usize> = (hl..b.len()).filter(|i| b[*i] <= 1).collect();
            if !cands.is_empty() && rng.chance(2, 3) {
                let i = *rng.pick(&cands);
                b[i] = *rng.pick(&[2u8, 3, 0x7f, 0x80, 0xff]);
            } else {
                let i = hl + rng.usize(b.len() - hl);
                b[i] = *rng.pick(&[0x80u8, 0xc0, 0xff, 0xfe, 0xed]);
            }
            ctx.count("cover:mutated:value-byte");
        }
        b
    } else {
        mutate_bytes(rng, &wc.bytes)
    };
    let mut hits = Hits::new();
    let (model, dec) = model_at(&bytes, &eenv, &ets, &mut hits);
    for (k, v) in &hits {
        ctx.count_n(&format!("cover:rule:{k}"), *v);
    }
    let (cenv, cts) = candid_side(&eenv, &ets, Some(&names));
    let input = || {
        json!({
            "bytes": hex(&bytes),
            "wire_env": wc.env.to_string(),
            "wire_types": wc.types.iter().map(|t| t.to_string()).collect::<Vec<_>>(),
            "expected_env": eenv.to_string(),
            "expected_types": ets.iter().map(|t| t.to_string()).collect::<Vec<_>>(),
            "names": names.iter().map(|(k, v)| format!("{k}={v:?}")).collect::<Vec<_>>(),
            "mutated": mutated,
        })
    };
    // mutated messages can declare astronomically long vectors of zero-sized elements: unmetered decoding of
    // those is unbounded by design, so every decode here runs under a quota far above any generated message
    let mut quota = candid::DecoderConfig::new();
    quota.set_decoding_quota(100_000_000);
    let got = catch(|| IDLArgs::from_bytes_with_types_with_config(&bytes, &cenv, &cts, &quota));
    let outcome_class;
    match got {
        Err(p) => {
            outcome_class = "panic";
            // a label containing ',' makes the untyped variant visitor panic (keyed finding)
            let comma = names.values().any(|n| n.contains(','));
            let sig = if comma && p.location.contains("value.rs") {
                format!("panic|{}|label-with-comma", p.location)
            } else {
                format!("panic|{}", p.sig())
            };
            ctx.violation(&sig, &format!("untyped decode panicked: {}", p.message), input());
        }
        Ok(res) => match (&model, res) {
            (ModelOutcome::Over(_), _) => {
                outcome_class = "over";
                ctx.count("excluded:over-limit");
            }
            (ModelOutcome::Malformed(m), Ok(args)) => {
                outcome_class = "accept-malformed";
                let class: String = m.split(|c: char| c.is_ascii_digit()).next().unwrap_or("").trim().to_string();
                ctx.violation(
                    &format!("accept-malformed|{class}"),
                    &format!("model: malformed ({m}) but candid decoded {args}"),
                    input(),
                );
            }
            (ModelOutcome::Malformed(_), Err(_)) => {
                outcome_class = "malformed";
                ctx.count("agree:malformed");
            }
            (ModelOutcome::Fail(m), Ok(args)) => {
                outcome_class = "accept-uncoercible";
                ctx.violation(
                    &format!("accept-uncoercible|{}", m.split(|c: char| c.is_ascii_digit()).next().unwrap_or("").trim()),
                    &format!("model: coercion fails ({m}) but candid decoded {args}"),
                    input(),
                );
            }
            (ModelOutcome::Fail(_), Err(_)) => {
                outcome_class = "fail";
                ctx.count("agree:coercion-fails");
            }
            (ModelOutcome::Ok(vs), Err(e)) => {
                outcome_class = "reject-valid";
                ctx.violation(
                    &format!("reject-valid|{}", err_class(&e)),
                    &format!(
                        "model: coerces to ({}) but candid fails: {}",
                        vs.iter().map(|v| v.to_string()).collect::<Vec<_>>().join(", "),
                        e.to_string().lines().next().unwrap_or("")
                    ),
                    input(),
                );
            }
            (ModelOutcome::Ok(vs), Ok(args)) => {
                outcome_class = "ok";
                let got: Vec<RValue> = args.args.iter().map(model_value).collect();
                if let Some(d) = diff_all(vs, &got) {
                    let sig = if uses_label(&eenv, &ets, &names, "_") && d.contains("record fields") {
                        "value-mismatch|expected-field-named-underscore-dropped".to_string()
                    } else {
                        let tail = d.split(": ").nth(1).unwrap_or("");
                        let class: String = tail
                            .split_whitespace()
                            .take(2)
                            .collect::<Vec<_>>()
                            .join(" ")
                            .chars()
                            .filter(|c| !c.is_ascii_digit())
                            .collect();
                        format!("value-mismatch|{class}")
                    };
                    ctx.violation(&sig, &format!("model (left) vs candid (right) differ at {d}"), input());
                } else {
                    ctx.count("agree:value");
                }
            }
        },
    }
    // no expected types: the plain inverse of the wire format
    if !mutated || rng.chance(1, 2) {
        let got = catch(|| IDLArgs::from_bytes_with_config(&bytes, &quota));
        let d0 = decode(&bytes);
        match (d0, got) {
            (_, Err(p)) => ctx.violation(
                &format!("panic|from_bytes|{}", p.sig()),
                &format!("IDLArgs::from_bytes panicked: {}", p.message),
                input(),
            ),
            (Err(DecErr::OverLimit(_)), _) => ctx.count("excluded:over-limit"),
            (Err(DecErr::Malformed(m)), Ok(Ok(a))) => ctx.violation(
                &format!(
                    "from_bytes|accept-malformed|{}",
                    m.split(|c: char| c.is_ascii_digit()).next().unwrap_or("").trim()
                ),
                &format!("model: malformed ({m}) but from_bytes returned {a}"),
                input(),
            ),
            (Err(DecErr::Malformed(_)), Ok(Err(_))) => ctx.count("agree:from_bytes-malformed"),
            (Ok(d), Ok(Err(e))) => {
                // reference values whose wire type table contains µ-records are compared with `empty`
                ctx.violation(
                    &format!("from_bytes|reject-valid|{}", err_class(&e)),
                    &format!(
                        "model decodes ({}) but from_bytes fails: {}",
                        d.values.iter().map(|v| v.to_string()).collect::<Vec<_>>().join(", "),
                        e.to_string().lines().next().unwrap_or("")
                    ),
                    input(),
                )
            }
            (Ok(d), Ok(Ok(a))) => {
                let want: Vec<RValue> = d.values.iter().map(future_as_null).collect();
                let got: Vec<RValue> = a.args.iter().map(model_value).collect();
                match diff_all(&want, &got) {
                    Some(df) => ctx.violation(
                        "from_bytes|value-mismatch",
                        &format!("model (left) vs from_bytes (right) differ at {df}"),
                        input(),
                    ),
                    None => ctx.count("agree:from_bytes-value"),
                }
            }
        }
    }
    ctx.count(&format!("cover:expected:{kind:?}"));
    if mutated {
        ctx.count("cover:mutated");
    }
    let nontrivial = mutated || kind != ExpectKind::Identical;
    if nontrivial {
        let wshape: Vec<String> = dec
            .as_ref()
            .map(|d| d.types.iter().map(|t| shape(&d.env, t, 4)).collect())
            .unwrap_or_else(|| vec![format!("undecodable:{}", bytes.len())]);
        let eshape: Vec<String> = ets.iter().map(|t| shape(&eenv, t, 4)).collect();
        ctx.nontrivial(hash_str(&format!("{wshape:?}|{eshape:?}|{outcome_class}")));
    }
    ctx.sample(input);
}

pub fn run(ctx: &mut Ctx) {
    let cfg = TypeCfg::default();
    ctx.cases("valid-messages", 0.5, |ctx, rng| one_case(ctx, rng, &cfg, false));
    ctx.cases("mutated-messages", 0.3, |ctx, rng| one_case(ctx, rng, &cfg, true));
    ctx.cases("small-scope-recursive-pairs", 0.2, small_scope_case);
}
