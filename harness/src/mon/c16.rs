//! C16 — principal text form is a checksummed bijection on 0..29-byte ids.
//!
//! Oracle R6 (`model::misc`): bitwise CRC-32, RFC 4648 base32, grouping, and the strict inverse.
//! Nothing here asks `ic_principal` to judge itself: every verdict compares its answer with R6.
use crate::ctx::{catch, hex, Ctx};
use crate::model::leb::leb_u64;
use crate::model::misc::{base32, crc32, principal_parse_strict, principal_text};
use crate::rng::{hash_bytes, hash_str, Rng};
use candid::types::value::IDLValue;
use candid::{Decode, Encode, IDLArgs, Principal};
use serde_json::json;
use std::convert::TryFrom;
use std::str::FromStr;

/// Characters used for substitutions / insertions: the base32 alphabet, its upper case, the digits
/// and symbols just outside it, separators, and non-ASCII characters whose Unicode case mapping
/// lands inside the alphabet (Kelvin sign, long s, dotless i, full-width a).
const EDIT_CHARS: &[char] = &[
    'a', 'b', 'c', 'd', 'e', 'f', 'g', 'h', 'i', 'j', 'k', 'l', 'm', 'n', 'o', 'p', 'q', 'r', 's', 't', 'u', 'v', 'w',
    'x', 'y', 'z', '2', '3', '4', '5', '6', '7', 'A', 'K', 'Q', 'Z', '0', '1', '8', '9', '=', '_', ' ', '-', '\n',
    '\t', '.', '+', '/', '\u{0}', '\u{7f}', '\u{212a}', '\u{17f}', '\u{131}', '\u{ff41}', '\u{e9}', '\u{ad}',
    '\u{200b}', '\u{feff}',
];

fn char_class(c: char) -> &'static str {
    match c {
        'a'..='z' | '2'..='7' => "alphabet",
        'A'..='Z' => "upper",
        '0' | '1' | '8' | '9' => "digit-outside",
        '-' => "dash",
        '=' => "pad",
        ' ' | '\n' | '\t' => "space",
        c if !c.is_ascii() => "non-ascii",
        _ => "symbol",
    }
}

fn gen_bytes(rng: &mut Rng, max: usize) -> Vec<u8> {
    let n = match rng.below(10) {
        0 => 0,
        1 => 1,
        2 => 29,
        3 => 28,
        4 => *rng.pick(&[3usize, 4, 5, 6, 7, 8, 9, 10]),
        _ => rng.usize(max.min(29) + 1),
    };
    match rng.below(6) {
        0 => vec![0u8; n],
        1 => vec![0xffu8; n],
        _ => rng.bytes(n),
    }
}

/// Everything the property says about a byte string of legal length. Returns the principal.
fn check_legal_bytes(ctx: &mut Ctx, b: &[u8], origin: &str) -> Option<Principal> {
    let input = || json!({"bytes": hex(b), "origin": origin});
    let want = principal_text(b);
    // constructors
    let p = match catch(|| Principal::try_from_slice(b)) {
        Err(pi) => {
            ctx.violation(&format!("panic|try_from_slice|{}", pi.sig()), &pi.message, input());
            return None;
        }
        Ok(Err(e)) => {
            ctx.violation(
                "constructor-rejects-legal|try_from_slice",
                &format!("{} bytes must be accepted, got {e}", b.len()),
                input(),
            );
            return None;
        }
        Ok(Ok(p)) => p,
    };
    if p.as_slice() != b {
        ctx.violation(
            "constructor-changes-bytes|try_from_slice",
            &format!("as_slice() = {} for input {}", hex(p.as_slice()), hex(b)),
            input(),
        );
        return None;
    }
    match catch(|| Principal::from_slice(b)) {
        Ok(q) if q == p && q.as_slice() == b => {}
        Ok(q) => ctx.violation(
            "constructor-changes-bytes|from_slice",
            &format!("from_slice gives {}", hex(q.as_slice())),
            input(),
        ),
        Err(pi) => ctx.violation(
            "constructor-rejects-legal|from_slice",
            &format!("from_slice panicked on {} bytes: {}", b.len(), pi.message),
            input(),
        ),
    }
    let others: [(&str, Result<Principal, candid::types::principal::PrincipalError>); 3] = [
        ("TryFrom<&[u8]>", Principal::try_from(b)),
        ("TryFrom<Vec<u8>>", Principal::try_from(b.to_vec())),
        ("TryFrom<&Vec<u8>>", Principal::try_from(&b.to_vec())),
    ];
    for (name, r) in others {
        match r {
            Ok(q) if q == p && q.as_slice() == b => {}
            Ok(q) => ctx.violation(
                &format!("constructor-changes-bytes|{name}"),
                &format!("{name} gives {}", hex(q.as_slice())),
                input(),
            ),
            Err(e) => ctx.violation(
                &format!("constructor-rejects-legal|{name}"),
                &format!("{} bytes must be accepted, got {e}", b.len()),
                input(),
            ),
        }
    }
    if p.len() as usize != b.len() || p.as_ref() != b || p.as_fixed_bytes()[b.len()..].iter().any(|x| *x != 0) {
        ctx.violation("accessor-mismatch", "len()/as_ref()/as_fixed_bytes() disagree with the input", input());
    }
    // printer
    let got = match catch(|| (p.to_text(), format!("{p}"))) {
        Ok(x) => x,
        Err(pi) => {
            ctx.violation(&format!("panic|to_text|{}", pi.sig()), &pi.message, input());
            return None;
        }
    };
    if got.0 != want || got.1 != want {
        ctx.violation(
            &format!("to_text-mismatch|len%5={}", b.len() % 5),
            &format!("reference text {want:?}, to_text {:?}, Display {:?}", got.0, got.1),
            input(),
        );
        return Some(p);
    }
    // parser on the canonical text
    let back: [(&str, Result<Principal, _>); 3] = [
        ("from_text", Principal::from_text(&want)),
        ("FromStr", Principal::from_str(&want)),
        ("TryFrom<&str>", Principal::try_from(want.as_str())),
    ];
    for (name, r) in back {
        match r {
            Ok(q) if q == p => {}
            Ok(q) => ctx.violation(
                &format!("text-roundtrip-mismatch|{name}"),
                &format!("{want:?} parses to {} instead of {}", hex(q.as_slice()), hex(b)),
                input(),
            ),
            Err(e) => ctx.violation(
                &format!("text-roundtrip-rejected|{name}"),
                &format!("canonical text {want:?} rejected: {e}"),
                input(),
            ),
        }
    }
    ctx.count("cover:bytes:legal");
    ctx.count(&format!("cover:len%5={}", b.len() % 5));
    Some(p)
}

fn check_overlong_bytes(ctx: &mut Ctx, b: &[u8]) {
    let input = || json!({"bytes": hex(b), "len": b.len()});
    let rs: [(&str, bool); 4] = [
        ("try_from_slice", Principal::try_from_slice(b).is_ok()),
        ("TryFrom<&[u8]>", Principal::try_from(b).is_ok()),
        ("TryFrom<Vec<u8>>", Principal::try_from(b.to_vec()).is_ok()),
        ("TryFrom<&Vec<u8>>", Principal::try_from(&b.to_vec()).is_ok()),
    ];
    for (name, ok) in rs {
        if ok {
            ctx.violation(
                &format!("constructor-accepts-overlong|{name}"),
                &format!("{name} accepted {} bytes", b.len()),
                input(),
            );
        }
    }
    // documented panic = rejection
    if let Ok(p) = catch(|| Principal::from_slice(b)) {
        ctx.violation(
            "constructor-accepts-overlong|from_slice",
            &format!("from_slice returned {} for {} bytes", hex(p.as_slice()), b.len()),
            input(),
        );
    }
    ctx.count("cover:bytes:overlong");
}

/// `from_text(s)` is `Ok(p)` iff the reference strict parser returns `p`'s bytes.
fn check_text(ctx: &mut Ctx, s: &str, class: &str) {
    let input = || json!({"text": s, "class": class});
    let want = principal_parse_strict(s);
    let got = match catch(|| Principal::from_text(s)) {
        Ok(r) => r,
        Err(pi) => {
            ctx.violation(&format!("panic|from_text|{}|{class}", pi.sig()), &pi.message, input());
            return;
        }
    };
    match (&want, &got) {
        (Some(b), Ok(p)) if p.as_slice() == &b[..] => ctx.count("agree:text-accepted"),
        (Some(b), Ok(p)) => ctx.violation(
            &format!("from_text-wrong-principal|{class}"),
            &format!("reference {} but from_text gives {}", hex(b), hex(p.as_slice())),
            input(),
        ),
        (None, Ok(p)) => ctx.violation(
            &format!("from_text-accepts-noncanonical|{class}"),
            &format!(
                "{s:?} is not (up to ASCII case) the canonical text {:?} of {} but is accepted",
                principal_text(p.as_slice()),
                hex(p.as_slice())
            ),
            input(),
        ),
        (Some(b), Err(e)) => ctx.violation(
            &format!("from_text-rejects-canonical|{class}"),
            &format!("{s:?} is the canonical text of {} up to case but is rejected: {e}", hex(b)),
            input(),
        ),
        (None, Err(_)) => ctx.count("agree:text-rejected"),
    }
    // the other spellings of the same entry point
    let same = |r: &Result<Principal, candid::types::principal::PrincipalError>| match (r, &got) {
        (Ok(a), Ok(b)) => a == b,
        (Err(_), Err(_)) => true,
        _ => false,
    };
    match catch(|| (Principal::from_str(s), Principal::try_from(s))) {
        Ok((a, b)) => {
            if !same(&a) || !same(&b) {
                ctx.violation(
                    &format!("fromstr-differs-from-from_text|{class}"),
                    &format!("from_text {got:?}, FromStr {a:?}, TryFrom<&str> {b:?}"),
                    input(),
                );
            }
        }
        Err(pi) => ctx.violation(&format!("panic|FromStr|{}|{class}", pi.sig()), &pi.message, input()),
    }
    ctx.count(&format!("cover:text:{class}"));
    ctx.nontrivial(hash_str(s));
}

fn insert_dashes(s: &str) -> String {
    let mut out = String::new();
    for (i, c) in s.chars().enumerate() {
        if i > 0 && i % 5 == 0 {
            out.push('-');
        }
        out.push(c);
    }
    out
}

/// Reference-built text of `crc || bytes` for any length (also > 29, where it must be rejected).
fn text_of(bytes: &[u8], crc: u32) -> String {
    let mut data = crc.to_be_bytes().to_vec();
    data.extend_from_slice(bytes);
    insert_dashes(&base32(&data))
}

fn exhaustive_chunk(ctx: &mut Ctx, chunk: u64) -> u64 {
    let mut n = 0;
    let mut one = |ctx: &mut Ctx, b: &[u8]| {
        if let Some(_p) = check_legal_bytes(ctx, b, "exhaustive") {
            let t = principal_text(b);
            check_text(ctx, &t.to_ascii_uppercase(), "exhaustive-upper");
            // drop the last character / flip the last character: must be rejected or be another canonical text
            let mut cut = t.clone();
            cut.pop();
            check_text(ctx, &cut, "exhaustive-truncated");
        }
        n += 1;
    };
    if chunk == 0 {
        one(ctx, &[]);
        for a in 0..=255u8 {
            one(ctx, &[a]);
        }
    } else {
        let a = (chunk - 1) as u8;
        for b in 0..=255u8 {
            one(ctx, &[a, b]);
        }
    }
    n
}

fn bytes_family(ctx: &mut Ctx, rng: &mut Rng, done: &mut u64) {
    let local = ctx.case & ((1u64 << 40) - 1);
    if local <= 256 {
        *done += exhaustive_chunk(ctx, local);
        // last chunk of this shard?
        // largest chunk index <= 256 congruent to this shard
        let last = if ctx.shard > 256 {
            u64::MAX
        } else {
            256 - (256 - ctx.shard) % ctx.nshards
        };
        if local == last && ctx.only.is_none() {
            let total = 1 + 256 + 65536;
            ctx.stats.exhaustive.push(format!(
                "principal byte strings of length <= 2: shard {}/{} checked {} of {} strings (chunks i = shard mod nshards, i in 0..=256)",
                ctx.shard, ctx.nshards, *done, total
            ));
        }
        return;
    }
    // random byte strings 0..=40
    let n = match rng.below(8) {
        0 => 29,
        1 => 30,
        2 => rng.range(30, 40) as usize,
        3 => rng.range(31, 300) as usize,
        _ => rng.usize(30),
    };
    let b = match rng.below(5) {
        0 => vec![0u8; n],
        1 => vec![0xff; n],
        _ => rng.bytes(n),
    };
    if n <= 29 {
        check_legal_bytes(ctx, &b, "random");
    } else {
        check_overlong_bytes(ctx, &b);
        // canonical-looking text of an over-long payload
        let t = text_of(&b, crc32(&b));
        check_text(ctx, &t, "overlong-payload");
    }
    ctx.nontrivial(hash_bytes(&b));
    ctx.sample(|| json!({"bytes": hex(&b)}));
}

fn edits_family(ctx: &mut Ctx, rng: &mut Rng) {
    let b = gen_bytes(rng, 29);
    let t = principal_text(&b);
    let cs: Vec<char> = t.chars().collect();
    // all substitutions and insertions at one position, and the deletion there
    let pos = rng.usize(cs.len() + 1);
    let mut buf = String::with_capacity(t.len() + 4);
    for &c in EDIT_CHARS {
        if pos < cs.len() {
            buf.clear();
            buf.extend(cs[..pos].iter());
            buf.push(c);
            buf.extend(cs[pos + 1..].iter());
            let class = if c == cs[pos] {
                "identity".to_string()
            } else {
                format!("substitute:{}", char_class(c))
            };
            check_text(ctx, &buf, &class);
        }
        buf.clear();
        buf.extend(cs[..pos].iter());
        buf.push(c);
        buf.extend(cs[pos..].iter());
        check_text(ctx, &buf, &format!("insert:{}", char_class(c)));
    }
    if pos < cs.len() {
        buf.clear();
        buf.extend(cs[..pos].iter());
        buf.extend(cs[pos + 1..].iter());
        check_text(ctx, &buf, if cs[pos] == '-' { "delete:dash" } else { "delete:alphabet" });
        // transpose with the neighbour
        if pos + 1 < cs.len() && cs[pos] != cs[pos + 1] {
            let mut v = cs.clone();
            v.swap(pos, pos + 1);
            let s: String = v.into_iter().collect();
            check_text(ctx, &s, "transpose");
        }
    }
    ctx.sample(|| json!({"bytes": hex(&b), "text": t, "edit_position": pos}));
}

fn spelling_family(ctx: &mut Ctx, rng: &mut Rng) {
    let b = gen_bytes(rng, 29);
    let t = principal_text(&b);
    let raw: String = t.chars().filter(|c| *c != '-').collect();
    match rng.below(16) {
        0 => check_text(ctx, &t.to_ascii_uppercase(), "case:upper"),
        1 => {
            let s: String = t
                .chars()
                .map(|c| if rng.bool() { c.to_ascii_uppercase() } else { c })
                .collect();
            check_text(ctx, &s, "case:mixed");
        }
        2 => check_text(ctx, &raw, "dash:all-removed"),
        3 => {
            // one dash moved by one position
            let mut v: Vec<char> = t.chars().collect();
            let ds: Vec<usize> = v.iter().enumerate().filter(|(_, c)| **c == '-').map(|(i, _)| i).collect();
            if let Some(&d) = ds.get(rng.usize(ds.len().max(1))) {
                let to = if rng.bool() && d + 1 < v.len() { d + 1 } else { d - 1 };
                v.swap(d, to);
                let s: String = v.into_iter().collect();
                check_text(ctx, &s, "dash:moved");
            } else {
                check_text(ctx, &format!("{t}-"), "dash:trailing");
            }
        }
        4 => check_text(ctx, &t.replacen('-', "--", 1), "dash:doubled"),
        5 => check_text(ctx, &format!("-{t}"), "dash:leading"),
        6 => check_text(ctx, &format!("{t}-"), "dash:trailing"),
        7 => {
            // regroup in groups of k != 5
            let k = *rng.pick(&[1usize, 2, 3, 4, 6, 7, 8, 10]);
            let mut s = String::new();
            for (i, c) in raw.chars().enumerate() {
                if i > 0 && i % k == 0 {
                    s.push('-');
                }
                s.push(c);
            }
            check_text(ctx, &s, "dash:regrouped");
        }
        8 => {
            // every prefix and every suffix
            let cs: Vec<char> = t.chars().collect();
            for i in 0..cs.len() {
                let p: String = cs[..i].iter().collect();
                check_text(ctx, &p, "truncate:prefix");
                let q: String = cs[cs.len() - i..].iter().collect();
                check_text(ctx, &q, "truncate:suffix");
            }
        }
        9 => {
            // wrong checksum with perfect grouping: crc of other data / off by one bit / zero
            let crc = match rng.below(4) {
                0 => crc32(&b) ^ (1 << rng.below(32)),
                1 => 0,
                2 => crc32(&b).swap_bytes(),
                _ => rng.next() as u32,
            };
            check_text(ctx, &text_of(&b, crc), if crc == crc32(&b) { "identity" } else { "checksum:wrong" });
        }
        10 => {
            // 30..40 (and longer) payload bytes with a correct checksum
            let n = if rng.chance(1, 4) { rng.range(41, 200) } else { rng.range(30, 40) } as usize;
            let big = rng.bytes(n);
            let s = text_of(&big, crc32(&big));
            check_text(ctx, &s, "overlong-payload");
            check_text(ctx, &s.to_ascii_uppercase(), "overlong-payload");
            check_overlong_bytes(ctx, &big);
        }
        11 => {
            let s = match rng.below(8) {
                0 => String::new(),
                1 => "-".to_string(),
                2 => "-".repeat(1 + rng.usize(12)),
                3 => " ".to_string(),
                4 => "aaaaa-aa ".to_string(),
                5 => " aaaaa-aa".to_string(),
                6 => "aaaaa-aa\n".to_string(),
                _ => "aaaaa-a".to_string(),
            };
            check_text(ctx, &s, "degenerate");
        }
        12 => {
            // fewer than 4 bytes of payload+crc: 1..6 alphabet characters
            let n = 1 + rng.usize(7);
            let s: String = (0..n).map(|_| *rng.pick(&EDIT_CHARS[..32])).collect();
            check_text(ctx, &insert_dashes(&s), "short");
        }
        13 => {
            // non-zero trailing bits: change the last character to one with the same leading bits
            let cs: Vec<char> = raw.chars().collect();
            let nbits = (4 + b.len()) * 8;
            let used = nbits % 5; // bits of the last character that carry data (0 = all five)
            if used != 0 {
                let alphabet = &EDIT_CHARS[..32];
                let last = alphabet.iter().position(|c| *c == *cs.last().unwrap()).unwrap();
                let junk = 1 + rng.usize((1usize << (5 - used)) - 1);
                let v = last | junk;
                let mut w = cs.clone();
                *w.last_mut().unwrap() = alphabet[v];
                let s: String = w.into_iter().collect();
                check_text(ctx, &insert_dashes(&s), "trailing-bits");
            } else {
                check_text(ctx, &t, "identity");
            }
        }
        14 => {
            // padding characters and an appended group
            let s = match rng.below(3) {
                0 => format!("{t}="),
                1 => format!("{t}-aaaaa"),
                _ => format!("{t}a"),
            };
            check_text(ctx, &s, "appended");
        }
        _ => {
            // random strings over the alphabet with correct grouping
            let n = rng.usize(64);
            let s: String = (0..n).map(|_| *rng.pick(&EDIT_CHARS[..32])).collect();
            check_text(ctx, &insert_dashes(&s), "random-alphabet");
        }
    }
    ctx.sample(|| json!({"bytes": hex(&b), "text": t}));
}

fn serde_family(ctx: &mut Ctx, rng: &mut Rng) {
    let b = gen_bytes(rng, 29);
    let input = || json!({"bytes": hex(&b)});
    let Ok(p) = Principal::try_from_slice(&b) else {
        return; // reported by the bytes family
    };
    let text = principal_text(&b);
    // human readable: the text form
    match catch(|| serde_json::to_string(&p)) {
        Ok(Ok(s)) => {
            if s != format!("\"{text}\"") {
                ctx.violation(
                    "serde-json|serialize-mismatch",
                    &format!("serde_json gives {s}, reference text {text:?}"),
                    input(),
                );
            }
            match catch(|| serde_json::from_str::<Principal>(&s)) {
                Ok(Ok(q)) if q == p => ctx.count("agree:json-roundtrip"),
                Ok(r) => ctx.violation(
                    "serde-json|roundtrip",
                    &format!("{s} deserialises to {r:?}"),
                    input(),
                ),
                Err(pi) => ctx.violation(&format!("panic|serde-json|{}", pi.sig()), &pi.message, input()),
            }
        }
        Ok(Err(e)) => ctx.violation("serde-json|serialize-error", &e.to_string(), input()),
        Err(pi) => ctx.violation(&format!("panic|serde-json|{}", pi.sig()), &pi.message, input()),
    }
    // a JSON string with some other spelling: accepted iff the strict parser accepts
    let (alt, class) = match rng.below(8) {
        0 => (text.to_ascii_uppercase(), "upper"),
        1 => (text.replace('-', ""), "no-dashes"),
        2 => (format!("{text}-"), "trailing-dash"),
        3 => (format!(" {text}"), "leading-space"),
        4 => {
            let mut v: Vec<char> = text.chars().collect();
            let i = rng.usize(v.len());
            v[i] = *rng.pick(EDIT_CHARS);
            (v.into_iter().collect(), "substituted")
        }
        5 => {
            let n = rng.range(30, 40) as usize;
            let big = rng.bytes(n);
            (text_of(&big, crc32(&big)), "overlong-payload")
        }
        6 => (String::new(), "empty"),
        _ => (text_of(&b, crc32(&b) ^ 1), "checksum"),
    };
    let js = serde_json::to_string(&alt).unwrap();
    let want = principal_parse_strict(&alt);
    match catch(|| serde_json::from_str::<Principal>(&js)) {
        Ok(Ok(q)) => match &want {
            Some(w) if q.as_slice() == &w[..] => ctx.count("agree:json-alt-accepted"),
            _ => ctx.violation(
                &format!("serde-json|accepts-noncanonical|{class}"),
                &format!("JSON {js} deserialises to {} but the strict parser gives {want:?}", hex(q.as_slice())),
                json!({"json": js}),
            ),
        },
        Ok(Err(e)) => {
            if let Some(w) = &want {
                ctx.violation(
                    &format!("serde-json|rejects-canonical|{class}"),
                    &format!("JSON {js} is the text of {} up to case but is rejected: {e}", hex(w)),
                    json!({"json": js}),
                );
            } else {
                ctx.count("agree:json-alt-rejected");
            }
        }
        Err(pi) => ctx.violation(&format!("panic|serde-json|{}", pi.sig()), &pi.message, json!({"json": js})),
    }
    // binary: the bytes
    match catch(|| bincode::serialize(&p)) {
        Ok(Ok(v)) => {
            let mut expect = (b.len() as u64).to_le_bytes().to_vec();
            expect.extend_from_slice(&b);
            if v != expect {
                ctx.violation(
                    "serde-bincode|serialize-mismatch",
                    &format!("bincode gives {}, expected length-prefixed bytes {}", hex(&v), hex(&expect)),
                    input(),
                );
            }
            match catch(|| bincode::deserialize::<Principal>(&v)) {
                Ok(Ok(q)) if q == p => ctx.count("agree:bincode-roundtrip"),
                Ok(r) => ctx.violation("serde-bincode|roundtrip", &format!("deserialises to {r:?}"), input()),
                Err(pi) => ctx.violation(&format!("panic|serde-bincode|{}", pi.sig()), &pi.message, input()),
            }
        }
        Ok(Err(e)) => ctx.violation("serde-bincode|serialize-error", &e.to_string(), input()),
        Err(pi) => ctx.violation(&format!("panic|serde-bincode|{}", pi.sig()), &pi.message, input()),
    }
    match catch(|| serde_cbor::to_vec(&p)) {
        Ok(Ok(v)) => {
            let mut expect = cbor_bytes_header(b.len());
            expect.extend_from_slice(&b);
            if v != expect {
                ctx.violation(
                    "serde-cbor|serialize-mismatch",
                    &format!("serde_cbor gives {}, expected byte string {}", hex(&v), hex(&expect)),
                    input(),
                );
            }
            match catch(|| serde_cbor::from_slice::<Principal>(&v)) {
                Ok(Ok(q)) if q == p => ctx.count("agree:cbor-roundtrip"),
                Ok(r) => ctx.violation("serde-cbor|roundtrip", &format!("deserialises to {r:?}"), input()),
                Err(pi) => ctx.violation(&format!("panic|serde-cbor|{}", pi.sig()), &pi.message, input()),
            }
        }
        Ok(Err(e)) => ctx.violation("serde-cbor|serialize-error", &e.to_string(), input()),
        Err(pi) => ctx.violation(&format!("panic|serde-cbor|{}", pi.sig()), &pi.message, input()),
    }
    // over-long byte strings through the binary deserialisers
    let n = if rng.chance(1, 4) { rng.range(41, 300) } else { rng.range(30, 40) } as usize;
    let big = rng.bytes(n);
    let mut bc = (n as u64).to_le_bytes().to_vec();
    bc.extend_from_slice(&big);
    match catch(|| bincode::deserialize::<Principal>(&bc)) {
        Ok(Ok(q)) => ctx.violation(
            "serde-bincode|accepts-overlong",
            &format!("{n} bytes deserialise to {}", hex(q.as_slice())),
            json!({"bincode": hex(&bc)}),
        ),
        Ok(Err(_)) => ctx.count("agree:bincode-overlong-rejected"),
        Err(pi) => ctx.violation(&format!("panic|serde-bincode|{}", pi.sig()), &pi.message, json!({"bincode": hex(&bc)})),
    }
    let mut cb = cbor_bytes_header(n);
    cb.extend_from_slice(&big);
    match catch(|| serde_cbor::from_slice::<Principal>(&cb)) {
        Ok(Ok(q)) => ctx.violation(
            "serde-cbor|accepts-overlong",
            &format!("{n} bytes deserialise to {}", hex(q.as_slice())),
            json!({"cbor": hex(&cb)}),
        ),
        Ok(Err(_)) => ctx.count("agree:cbor-overlong-rejected"),
        Err(pi) => ctx.violation(&format!("panic|serde-cbor|{}", pi.sig()), &pi.message, json!({"cbor": hex(&cb)})),
    }
    ctx.nontrivial(hash_bytes(&b) ^ hash_str(&alt));
    ctx.sample(|| json!({"bytes": hex(&b), "json_alt": js}));
}

fn cbor_bytes_header(n: usize) -> Vec<u8> {
    if n < 24 {
        vec![0x40 | n as u8]
    } else if n < 256 {
        vec![0x58, n as u8]
    } else {
        vec![0x59, (n >> 8) as u8, n as u8]
    }
}

fn wire_family(ctx: &mut Ctx, rng: &mut Rng) {
    let n = match rng.below(8) {
        0 => 29,
        1 => 30,
        2 => rng.range(31, 40) as usize,
        3 => rng.range(41, 200) as usize,
        _ => rng.usize(30),
    };
    let b = rng.bytes(n);
    // "DIDL" 00 01 68 01 <leb len> <bytes>
    let mut msg = b"DIDL\x00\x01\x68\x01".to_vec();
    msg.extend(leb_u64(n as u64));
    msg.extend_from_slice(&b);
    let input = || json!({"message": hex(&msg), "principal_len": n});
    let r1 = catch(|| IDLArgs::from_bytes(&msg));
    let r2 = catch(|| Decode!(&msg, Principal));
    match r1 {
        Err(pi) => ctx.violation(&format!("panic|wire|from_bytes|{}", pi.sig()), &pi.message, input()),
        Ok(Ok(args)) => {
            let ok = n <= 29 && args.args.len() == 1 && matches!(&args.args[0], IDLValue::Principal(p) if p.as_slice() == &b[..]);
            if n > 29 {
                ctx.violation(
                    "wire|accepts-overlong|IDLArgs::from_bytes",
                    &format!("principal of {n} bytes decoded as {args}"),
                    input(),
                );
            } else if !ok {
                ctx.violation(
                    "wire|value-mismatch|IDLArgs::from_bytes",
                    &format!("decoded {args}, expected principal {}", principal_text(&b)),
                    input(),
                );
            } else {
                ctx.count("agree:wire-untyped");
            }
        }
        Ok(Err(e)) => {
            if n <= 29 {
                ctx.violation(
                    "wire|rejects-legal|IDLArgs::from_bytes",
                    &format!("principal of {n} bytes rejected: {e}"),
                    input(),
                );
            } else {
                ctx.count("agree:wire-untyped-rejected");
            }
        }
    }
    match r2 {
        Err(pi) => ctx.violation(&format!("panic|wire|Decode|{}", pi.sig()), &pi.message, input()),
        Ok(Ok(p)) => {
            if n > 29 {
                ctx.violation(
                    "wire|accepts-overlong|Decode!",
                    &format!("principal of {n} bytes decoded as {}", hex(p.as_slice())),
                    input(),
                );
            } else if p.as_slice() != &b[..] {
                ctx.violation(
                    "wire|value-mismatch|Decode!",
                    &format!("decoded {}, expected {}", hex(p.as_slice()), hex(&b)),
                    input(),
                );
            } else {
                ctx.count("agree:wire-native");
            }
        }
        Ok(Err(e)) => {
            if n <= 29 {
                ctx.violation(
                    "wire|rejects-legal|Decode!",
                    &format!("principal of {n} bytes rejected: {e}"),
                    input(),
                );
            } else {
                ctx.count("agree:wire-native-rejected");
            }
        }
    }
    // and the encoder produces exactly this message for a legal principal
    if n <= 29 {
        if let Ok(p) = Principal::try_from_slice(&b) {
            match catch(|| Encode!(&p)) {
                Ok(Ok(v)) if v == msg => ctx.count("agree:wire-encode"),
                Ok(Ok(v)) => ctx.violation(
                    "wire|encode-mismatch",
                    &format!("Encode! gives {}, reference {}", hex(&v), hex(&msg)),
                    input(),
                ),
                Ok(Err(e)) => ctx.violation("wire|encode-error", &e.to_string(), input()),
                Err(pi) => ctx.violation(&format!("panic|wire|Encode|{}", pi.sig()), &pi.message, input()),
            }
        }
    }
    ctx.count(if n > 29 { "cover:wire:overlong" } else { "cover:wire:legal" });
    ctx.nontrivial(hash_bytes(&msg));
    ctx.sample(input);
}

pub fn run(ctx: &mut Ctx) {
    ctx.max_violations = 80;
    let mut done = 0u64;
    ctx.cases("bytes", 0.2, |ctx, rng| bytes_family(ctx, rng, &mut done));
    ctx.cases("single-character-edits", 0.35, edits_family);
    ctx.cases("spellings", 0.25, spelling_family);
    ctx.cases("serde", 0.1, serde_family);
    ctx.cases("wire", 0.1, wire_family);
}
