//! C14 — the type checker accepts exactly the well-formed programs.
//!
//! Programs come from `crate::prog`: well-formed by construction (verdict "accept"), well-formed
//! look-alikes of fault shapes ("accept"), and single-fault mutants ("reject", each re-judged by
//! the independent `prog::well_formed`). candid's verdict = `str::parse::<IDLProg>()` followed by
//! `check_prog` (a parse error is a rejection). Every accepted environment is then walked:
//! closedness, `trace_type`, reflexive `subtype`, encoding of generated values, the four binding
//! generators — none may panic. Everything that touches candid runs on a thread with a bounded
//! stack; only plain data comes back.
use crate::conv::{to_idl, FromCandid};
use crate::ctx::{catch, on_thread, Ctx};
use crate::gen::values::ValGen;
use crate::model::subtype::requal;
use crate::model::{REnv, RType};
use crate::prog::*;
use crate::rng::Rng;
use candid::types::subtype::{subtype, Gamma};
use candid::types::value::IDLArgs;
use candid::types::{Type, TypeEnv, TypeInner};
use candid_parser::syntax::{IDLInitArgs, IDLMergedProg};
use serde_json::json;

const STACK: usize = 64 << 20;

fn clip(s: &str) -> String {
    if s.len() > 6000 {
        let mut end = 6000;
        while !s.is_char_boundary(end) {
            end -= 1;
        }
        format!("{}…(+{} bytes)", &s[..end], s.len() - end)
    } else {
        s.to_string()
    }
}

/// What came back from the thread that ran candid.
#[derive(Default)]
struct Report {
    /// None = accepted; Some((stage, class, first line of the message))
    rejected: Option<(String, String, String)>,
    /// findings of the walk over an accepted environment: (signature, explanation)
    findings: Vec<(String, String)>,
    counters: Vec<String>,
    /// the checker's reading differs from the spec's reading of the source
    model_diff: Option<String>,
}

fn all_vars(t: &Type, out: &mut Vec<String>) {
    match t.as_ref() {
        TypeInner::Var(v) => out.push(v.clone()),
        TypeInner::Opt(x) | TypeInner::Vec(x) => all_vars(x, out),
        TypeInner::Record(fs) | TypeInner::Variant(fs) => fs.iter().for_each(|f| all_vars(&f.ty, out)),
        TypeInner::Func(f) => f.args.iter().chain(f.rets.iter()).for_each(|x| all_vars(x, out)),
        TypeInner::Service(ms) => ms.iter().for_each(|m| all_vars(&m.1, out)),
        TypeInner::Class(args, t) => {
            args.iter().for_each(|x| all_vars(x, out));
            all_vars(t, out)
        }
        _ => {}
    }
}

fn motoko_ok(p: &Prog) -> bool {
    // the Motoko generator documents a panic for method names that are not identifiers
    let mut ok = true;
    let mut q = p.clone();
    crate::prog::mutants::walk(&mut q, &mut |node, _| {
        if let crate::prog::mutants::Node::Methods(ms) = node {
            if ms.iter().any(|m| !is_ident(&m.name)) {
                ok = false;
            }
        }
    });
    ok
}

/// Walk an accepted environment. `pm` is the model of the source program.
#[allow(clippy::too_many_arguments)]
fn walk_accepted(
    r: &mut Report,
    seed: u64,
    p: &Prog,
    pm: &ProgModel,
    env: &TypeEnv,
    actor: &Option<Type>,
    ast: candid_parser::IDLProg,
    bindings: bool,
) {
    // closed: every name that occurs resolves
    let mut vars = Vec::new();
    for t in env.0.values() {
        all_vars(t, &mut vars);
    }
    if let Some(a) = actor {
        all_vars(a, &mut vars);
    }
    for v in &vars {
        if env.find_type(v).is_err() {
            r.findings.push((
                "accepted-env|unbound-name".into(),
                format!("accepted environment refers to `{v}` which it does not define"),
            ));
            return;
        }
    }
    r.counters.push("walk:closed".into());
    // name tracing terminates in a non-name
    for name in env.0.keys() {
        let v: Type = TypeInner::Var(name.clone()).into();
        match catch(|| env.trace_type(&v)) {
            Err(pn) => r.findings.push((format!("trace_type|panic|{}", stable_location(&pn.location)), pn.message.clone())),
            Ok(Err(e)) => r.findings.push((
                format!("trace_type|error|{}", crate::mon::common::err_class(&e)),
                format!("trace_type({name}) failed on an accepted environment: {e}"),
            )),
            Ok(Ok(t)) => {
                if matches!(t.as_ref(), TypeInner::Var(_)) {
                    r.findings.push(("trace_type|returns-a-name".into(), format!("trace_type({name}) = {t}")));
                }
            }
        }
    }
    r.counters.push("walk:trace_type".into());
    // reflexive subtyping: literally (t, t), and against a renamed copy of the environment
    let mut twice = env.clone();
    let renamed: Vec<(Type, Type)> = env
        .0
        .keys()
        .map(|name| {
            let v: Type = TypeInner::Var(name.clone()).into();
            (v.clone(), twice.merge_type(env.clone(), v))
        })
        .collect();
    for (v, v2) in &renamed {
        match catch(|| subtype(&mut Gamma::new(), env, v, v)) {
            Err(pn) => r.findings.push((format!("subtype|panic|{}", stable_location(&pn.location)), pn.message.clone())),
            Ok(Err(e)) => r.findings.push((
                format!("subtype|reflexive-rejected|{}", crate::mon::common::err_class(&e)),
                format!("subtype({v}, {v}) = Err({e})"),
            )),
            Ok(Ok(())) => {}
        }
        match catch(|| subtype(&mut Gamma::new(), &twice, v, v2)) {
            Err(pn) => r.findings.push((format!("subtype|panic|{}", stable_location(&pn.location)), format!("against a renamed copy: {}", pn.message))),
            Ok(Err(_)) => r.counters.push("anomaly:subtype-rejects-renamed-copy".into()),
            Ok(Ok(())) => r.counters.push("walk:subtype-renamed-copy-ok".into()),
        }
    }
    if let Some(a) = actor {
        match catch(|| subtype(&mut Gamma::new(), env, a, a)) {
            Err(pn) => r.findings.push((format!("subtype|panic|{}", stable_location(&pn.location)), pn.message.clone())),
            Ok(Err(e)) => r.findings.push((
                format!("subtype|reflexive-rejected|{}", crate::mon::common::err_class(&e)),
                format!("subtype(actor, actor) = Err({e})"),
            )),
            Ok(Ok(())) => {}
        }
    }
    r.counters.push("walk:subtype".into());
    // a generated value of every inhabited definition / method argument / init argument encodes
    let mut rng = Rng::new(seed ^ 0xE2C0DE);
    let vg = ValGen::new(&pm.env);
    let mut targets: Vec<(RType, Type)> = Vec::new();
    for (name, idx) in &pm.def_index {
        targets.push((RType::Ref(*idx), TypeInner::Var(name.clone()).into()));
    }
    if let (Some((minit, mserv)), Some(a)) = (&pm.actor, actor) {
        let (cinit, cserv) = actor_parts(a);
        if let Some(ci) = cinit {
            if ci.len() == minit.len() {
                for (m, c) in minit.iter().zip(ci.iter()) {
                    targets.push((m.clone(), c.clone()));
                }
            }
        }
        if let (Some(RType::Service(mms)), Ok(cms)) = (pm.env.unfold(mserv), env.as_service(&cserv)) {
            if mms.len() == cms.len() {
                for ((_, mt), (_, ct)) in mms.iter().zip(cms.iter()) {
                    if let (Some(RType::Func { args, rets, .. }), Ok(cf)) = (pm.env.unfold(mt), env.as_func(ct)) {
                        if args.len() == cf.args.len() && rets.len() == cf.rets.len() {
                            for (m, c) in args.iter().zip(cf.args.iter()).chain(rets.iter().zip(cf.rets.iter())) {
                                targets.push((m.clone(), c.clone()));
                            }
                        }
                    }
                }
            }
        }
    }
    for (mt, ct) in targets.iter().take(24) {
        if !vg.inhabited(mt) {
            r.counters.push("excluded:uninhabited-type".into());
            continue;
        }
        let mut fuel = 25i64;
        let Some(v) = vg.gen(&mut rng, mt, &mut fuel) else { continue };
        let Ok(idl) = to_idl(&pm.env, mt, &v, Some(&pm.names)) else {
            r.counters.push("excluded:value-not-expressible".into());
            continue;
        };
        let args = IDLArgs { args: vec![idl] };
        match catch(|| args.to_bytes_with_types(env, std::slice::from_ref(ct))) {
            Err(pn) => r.findings.push((
                format!("encode|panic|{}", stable_location(&pn.location)),
                format!("encoding {args} at {ct} panicked: {}", pn.message),
            )),
            Ok(Err(e)) => r.findings.push((
                format!("encode|error|{}", crate::mon::common::err_class(&e)),
                format!("a value of the type does not encode: {args} at {ct}: {e}"),
            )),
            Ok(Ok(_)) => r.counters.push("walk:encoded".into()),
        }
    }
    if !bindings {
        return;
    }
    // binding generators return
    let merged = IDLMergedProg::new(ast);
    use candid_parser::bindings::{javascript, motoko, rust, typescript};
    let hint = |p: &Prog| {
        let f = features(p);
        if f.contains("name:control-char") {
            "names=control-char"
        } else if f.contains("name:non-identifier") {
            "names=quoted"
        } else {
            "names=identifiers"
        }
    };
    match catch(|| javascript::compile(env, actor)) {
        Err(pn) => r.findings.push((format!("binding|javascript|panic|{}|{}", stable_location(&pn.location), hint(p)), pn.message.clone())),
        Ok(_) => r.counters.push("walk:javascript".into()),
    }
    match catch(|| typescript::compile(env, actor, &merged)) {
        Err(pn) => r.findings.push((format!("binding|typescript|panic|{}|{}", stable_location(&pn.location), hint(p)), pn.message.clone())),
        Ok(_) => r.counters.push("walk:typescript".into()),
    }
    if motoko_ok(p) {
        match catch(|| motoko::compile(env, actor, &merged)) {
            Err(pn) => r.findings.push((format!("binding|motoko|panic|{}|{}", stable_location(&pn.location), hint(p)), pn.message.clone())),
            Ok(_) => r.counters.push("walk:motoko".into()),
        }
    } else {
        r.counters.push("excluded:motoko-non-identifier-method".into());
    }
    match "".parse::<candid_parser::configs::Configs>() {
        Ok(cfgs) => {
            match catch(|| {
                let tree = rust::Config::new(cfgs);
                rust::compile(&tree, env, actor, &merged, rust::ExternalConfig::default())
            }) {
                Err(pn) => r.findings.push((format!("binding|rust|panic|{}|{}", stable_location(&pn.location), hint(p)), pn.message.clone())),
                Ok(_) => r.counters.push("walk:rust".into()),
            }
        }
        Err(_) => r.counters.push("excluded:rust-config".into()),
    }
}

/// A long-lived thread with a bounded stack that runs the candid side of every case (spawning a
/// thread with a 64 MiB stack per case costs more than parsing and checking the program).
pub struct BoundedStack {
    tx: std::sync::mpsc::Sender<Box<dyn FnOnce() -> Report + Send>>,
    rx: std::sync::mpsc::Receiver<Result<Report, crate::ctx::PanicInfo>>,
}

impl BoundedStack {
    pub fn new(stack: usize) -> BoundedStack {
        let (tx, jobs) = std::sync::mpsc::channel::<Box<dyn FnOnce() -> Report + Send>>();
        let (results, rx) = std::sync::mpsc::channel();
        std::thread::Builder::new()
            .stack_size(stack)
            .spawn(move || {
                for job in jobs {
                    if results.send(catch(job)).is_err() {
                        break;
                    }
                }
            })
            .expect("spawn");
        BoundedStack { tx, rx }
    }
    fn run(&self, f: impl FnOnce() -> Report + Send + 'static) -> Result<Report, crate::ctx::PanicInfo> {
        self.tx.send(Box::new(f)).expect("bounded-stack thread is gone");
        self.rx.recv().expect("bounded-stack thread is gone")
    }
}

/// The 64 MiB thread for everything, and a 2 MiB one for programs containing the shape on which the
/// pinned checker recurses until its stack guard fires (the verdict is the same on any stack; burning
/// 64 MiB takes seconds in release builds).
pub struct Stacks {
    big: BoundedStack,
    small: BoundedStack,
}
impl Stacks {
    fn pick(&self, runaway_shape: bool) -> &BoundedStack {
        if runaway_shape {
            &self.small
        } else {
            &self.big
        }
    }
}

/// Runs candid on `text` (on a bounded stack) and, when accepted, walks the environment.
fn run_candid(stack: &BoundedStack, text: String, p: Prog, pm: Option<ProgModel>, seed: u64, bindings: bool) -> Report {
    let res = stack.run(move || {
        let mut r = Report::default();
        match parse_check(&text) {
            Err(e) => {
                r.rejected = Some((
                    e.stage().to_string(),
                    e.class(),
                    e.message().lines().next().unwrap_or("").chars().take(300).collect(),
                ));
            }
            Ok((env, actor, ast)) => {
                if let Some(pm) = &pm {
                    r.model_diff = diff_model(pm, &env, &actor);
                    if r.model_diff.is_none() {
                        walk_accepted(&mut r, seed, &p, pm, &env, &actor, ast, bindings);
                    }
                }
            }
        }
        r
    });
    match res {
        Ok(r) => r,
        Err(pn) => Report {
            findings: vec![(format!("harness-thread|{}", stable_location(&pn.location)), pn.message)],
            ..Report::default()
        },
    }
}

fn absorb(ctx: &mut Ctx, r: &Report, input: &serde_json::Value) {
    for c in &r.counters {
        ctx.count(c);
    }
    for (sig, what) in &r.findings {
        ctx.violation(sig, what, input.clone());
    }
}

fn expect_accept(ctx: &mut Ctx, rng: &mut Rng, p: &Prog, what: &str, stacks: &Stacks) {
    let pm = to_model(p);
    let pc = PrintCfg::random(rng);
    let text = print_prog(p, &pc, rng);
    for f in features(p) {
        ctx.count(&format!("cover:{f}"));
    }
    let cycle = has_func_method_cycle(&p.defs);
    let stack = stacks.pick(cycle);
    let bindings = rng.chance(1, 2);
    let r = run_candid(stack, text.clone(), p.clone(), Some(pm.clone()), rng.next(), bindings);
    let input = json!({"kind": what, "source": clip(&text), "source_plain_layout": clip(&plain(p))});
    match &r.rejected {
        Some((stage, class, msg)) => {
            let sig = if cycle && msg.contains("Recursion limit exceeded") {
                "reject-wellformed|check|Recursion limit exceeded|func-service-method-cycle".to_string()
            } else if stage == "panic" && msg.contains("attempt to add with overflow") && features(p).contains("label:numeric") {
                format!("reject-wellformed|{class}|record-id-2^32-1")
            } else {
                format!("reject-wellformed|{class}")
            };
            ctx.violation(
                &sig,
                &format!("well-formed program ({what}) rejected at stage {stage}: {msg}"),
                input.clone(),
            );
        }
        None => {
            ctx.count("agree:accepted");
            if let Some(d) = &r.model_diff {
                ctx.violation(
                    &format!("accepted-env|differs-from-source|{}", d.split('|').next().unwrap_or("")),
                    &format!("the checked environment is not the meaning of the source: {d}"),
                    input.clone(),
                );
            }
        }
    }
    absorb(ctx, &r, &input);
    ctx.nontrivial(shape_hash(&pm) ^ crate::rng::hash_str(what));
    ctx.sample(|| json!({"kind": what, "source": clip(&text)}));
}

fn expect_reject(ctx: &mut Ctx, rng: &mut Rng, m: &Mutant, stacks: &Stacks) {
    let pc = PrintCfg::random(rng);
    let text = print_prog(&m.prog, &pc, rng);
    ctx.count(&format!("cover:fault:{}", m.kind.class()));
    ctx.count(&format!("cover:position:{}", m.root_class));
    let stack = stacks.pick(has_func_method_cycle(&m.prog.defs));
    let r = run_candid(stack, text.clone(), m.prog.clone(), None, 0, false);
    let input = json!({
        "fault": m.kind.class(), "position": m.position, "violated_rule": m.reason,
        "source": clip(&text), "source_plain_layout": clip(&plain(&m.prog)),
    });
    match &r.rejected {
        Some((stage, _, _)) => {
            ctx.count("agree:rejected");
            ctx.count(&format!("rejected-at:{stage}"));
            if stage == "panic" {
                // a rejection, but by panic: that is C13's finding, not an acceptance
                ctx.count("anomaly:rejected-by-panic");
            }
        }
        None => ctx.violation(
            &accept_sig("", m),
            &format!(
                "ill-formed program accepted: fault {} at {} ({})",
                m.kind.class(),
                m.position,
                m.reason
            ),
            input.clone(),
        ),
    }
    absorb(ctx, &r, &input);
    ctx.nontrivial(crate::rng::hash_str(&format!("{}|{}|{}", m.kind.class(), m.position, m.prog.defs.len())));
}

/// `accept-illformed|<fault>|<position class>`. Numeric-looking duplicate argument names are dropped
/// by the parser wherever they occur, so the position is not part of that signature.
fn accept_sig(prefix: &str, m: &Mutant) -> String {
    if m.kind == FaultKind::DupArgNameNumeric {
        format!("{prefix}accept-illformed|{}", m.kind.class())
    } else {
        format!("{prefix}accept-illformed|{}|{}", m.kind.class(), m.root_class)
    }
}

fn cfg_for(rng: &mut Rng) -> ProgCfg {
    let mut cfg = if rng.chance(1, 3) { ProgCfg::default() } else { ProgCfg::random(rng) };
    cfg.docs = if rng.chance(1, 4) { DocKind::Benign } else { DocKind::None };
    cfg
}

// ------------------------------------------------------------------------------------------
// init-args programs (candid:args metadata)

struct InitReport {
    main_rejected: bool,
    rejected: Option<(String, String)>,
    diff: Option<String>,
}

fn run_init(main_text: String, text: String, expect: Option<(REnv, Vec<RType>)>) -> Result<InitReport, crate::ctx::PanicInfo> {
    on_thread(16 << 20, move || {
        let mut rep = InitReport {
            main_rejected: false,
            rejected: None,
            diff: None,
        };
        let main_env = match parse_check(&main_text) {
            Ok((env, _, _)) => env,
            Err(_) => {
                rep.main_rejected = true;
                return rep;
            }
        };
        let r = catch(|| -> Result<(TypeEnv, Vec<Type>), (String, String)> {
            let ast = text.parse::<IDLInitArgs>().map_err(|e| ("parse".to_string(), e.to_string()))?;
            let mut te = TypeEnv::new();
            let args = candid_parser::typing::check_init_args(&mut te, &main_env, &ast)
                .map_err(|e| ("check".to_string(), e.to_string()))?;
            Ok((te, args))
        });
        match r {
            Err(pn) => rep.rejected = Some(("panic".into(), format!("{}: {}", pn.location, pn.message))),
            Ok(Err(e)) => rep.rejected = Some(e),
            Ok(Ok((te, args))) => {
                if let Some((xenv, xargs)) = &expect {
                    let mut c = FromCandid::new(&te);
                    let mut got = Vec::new();
                    for a in &args {
                        match c.ty(a) {
                            Ok(t) => got.push(t),
                            Err(e) => {
                                rep.diff = Some(format!("unconvertible|{e}"));
                                return rep;
                            }
                        }
                    }
                    if got.len() != xargs.len() {
                        rep.diff = Some(format!("arity|model {} vs candid {}", xargs.len(), got.len()));
                        return rep;
                    }
                    let mut all = xenv.clone();
                    let off = all.append(&c.out);
                    for (k, (x, g)) in xargs.iter().zip(got.iter()).enumerate() {
                        if !requal(&all, x, &g.shift_refs(off)) {
                            rep.diff = Some(format!("arg-differs|#{k}"));
                            return rep;
                        }
                    }
                }
            }
        }
        rep
    })
}

fn init_args_case(ctx: &mut Ctx, rng: &mut Rng) {
    let cfg = cfg_for(rng);
    let main = Prog {
        defs: gen_defs(rng, &cfg, &[]).0,
        actor: None,
    };
    let main_text = print_prog(&main, &PrintCfg::plain().without_docs(), rng);
    let mutate = rng.chance(1, 2);
    if !mutate {
        let ia = gen_init_args(rng, &cfg, Some(&main));
        let main_pm = to_model(&main);
        let expect = match init_args_model(&ia, Some(&main_pm)) {
            Ok(x) => x,
            Err(_) => {
                ctx.count("excluded:init-args-model");
                return;
            }
        };
        let text = print_init_args(&ia, &PrintCfg::random(rng), rng);
        let input = json!({"main": clip(&main_text), "init_args": clip(&text)});
        match run_init(main_text.clone(), text.clone(), Some(expect)) {
            Err(pn) => ctx.violation(&format!("harness-thread|{}", stable_location(&pn.location)), &pn.message, input),
            Ok(rep) if rep.main_rejected => ctx.count("excluded:main-rejected"),
            Ok(rep) => match (rep.rejected, rep.diff) {
                (Some((stage, msg)), _) => {
                    let cyc = has_func_method_cycle(&ia.defs) && msg.contains("Recursion limit exceeded");
                    let class = if cyc {
                        "check|Recursion limit exceeded|func-service-method-cycle".to_string()
                    } else {
                        format!("{stage}|{}", crate::mon::common::err_class(&msg))
                    };
                    ctx.violation(
                        &format!("init-args|reject-wellformed|{class}"),
                        &format!("well-formed init-args program rejected at {stage}: {}", msg.lines().next().unwrap_or("")),
                        input,
                    )
                }
                (None, Some(d)) => ctx.violation(
                    &format!("init-args|differs-from-source|{}", d.split('|').next().unwrap_or("")),
                    &format!("check_init_args returned types that differ from the source: {d}"),
                    input,
                ),
                (None, None) => ctx.count("agree:init-args-accepted"),
            },
        }
        ctx.nontrivial(crate::rng::hash_str(&format!("init-ok|{}", plain(&Prog { defs: ia.defs.clone(), actor: None }).len())));
    } else {
        // a self-contained init-args program, wrapped as a constructor so that the mutant catalogue applies
        let ia = gen_init_args(rng, &cfg, None);
        let wrapped = Prog {
            defs: ia.defs.clone(),
            actor: Some(Actor {
                name: None,
                init: Some(ia.args.clone()),
                body: ActorBody::Service(vec![]),
                docs: vec![],
            }),
        };
        let Some(m) = gen_mutant(rng, &wrapped) else {
            ctx.count("excluded:no-mutant");
            return;
        };
        let still_wrapped = match &m.prog.actor {
            Some(Actor {
                init: Some(_),
                body: ActorBody::Service(ms),
                ..
            }) => ms.is_empty(),
            _ => false,
        };
        if !still_wrapped || m.root_class.starts_with("actor") {
            ctx.count("excluded:fault-outside-init-args");
            return;
        }
        let bad = InitArgsProg {
            defs: m.prog.defs.clone(),
            args: m.prog.actor.as_ref().unwrap().init.clone().unwrap(),
        };
        // names of the unrelated main program must stay apart
        if bad.defs.iter().any(|d| main.def(&d.name).is_some()) {
            ctx.count("excluded:name-clash-with-main");
            return;
        }
        let text = print_init_args(&bad, &PrintCfg::random(rng), rng);
        ctx.count(&format!("cover:init-fault:{}", m.kind.class()));
        let input = json!({"main": clip(&main_text), "init_args": clip(&text), "fault": m.kind.class(), "position": m.position, "violated_rule": m.reason});
        match run_init(main_text.clone(), text.clone(), None) {
            Err(pn) => ctx.violation(&format!("harness-thread|{}", stable_location(&pn.location)), &pn.message, input),
            Ok(rep) if rep.main_rejected => ctx.count("excluded:main-rejected"),
            Ok(rep) => match rep.rejected {
                Some(_) => ctx.count("agree:init-args-rejected"),
                None => ctx.violation(
                    &accept_sig("init-args|", &m),
                    &format!("ill-formed init-args program accepted: {} at {} ({})", m.kind.class(), m.position, m.reason),
                    input,
                ),
            },
        }
        ctx.nontrivial(crate::rng::hash_str(&format!("init-bad|{}|{}", m.kind.class(), m.position)));
    }
}

pub fn run(ctx: &mut Ctx) {
    let stacks = Stacks {
        big: BoundedStack::new(STACK),
        small: BoundedStack::new(2 << 20),
    };
    ctx.cases("wellformed", 0.35, |ctx, rng| {
        let cfg = cfg_for(rng);
        let p = gen_prog(rng, &cfg);
        expect_accept(ctx, rng, &p, "generated", &stacks);
    });
    ctx.cases("lookalikes", 0.20, |ctx, rng| {
        let cfg = cfg_for(rng);
        let p = gen_prog(rng, &cfg);
        match gen_lookalike(rng, &p) {
            Some((q, k)) => {
                ctx.count(&format!("cover:lookalike:{}", format!("{k:?}").split('(').next().unwrap_or("")));
                expect_accept(ctx, rng, &q, &format!("lookalike:{k:?}"), &stacks);
            }
            None => ctx.count("excluded:no-lookalike"),
        }
    });
    ctx.cases("mutants", 0.25, |ctx, rng| {
        let cfg = cfg_for(rng);
        let p = gen_prog(rng, &cfg);
        match gen_mutant(rng, &p) {
            Some(m) => expect_reject(ctx, rng, &m, &stacks),
            None => ctx.count("excluded:no-mutant"),
        }
    });
    ctx.cases("init-args", 0.15, init_args_case);
    // well-formed shapes at the edge: id 2^32-1 in records; functions reaching themselves through a
    // service method given by name
    ctx.cases("boundary-shapes", 0.05, |ctx, rng| {
        let mut cfg = cfg_for(rng);
        cfg.max_id = true;
        cfg.func_method_cycles = true;
        cfg.max_defs = cfg.max_defs.max(2);
        let mut p = gen_prog(rng, &cfg);
        match rng.below(3) {
            0 => {
                let name = "Edge".to_string();
                if p.def(&name).is_none() {
                    p.defs.push(Def {
                        name,
                        ty: Ty::Record(vec![
                            Field::new(Label::Id(u32::MAX), Ty::Prim(Prim::Nat)),
                            Field::new(Label::Id(0), Ty::Prim(Prim::Text)),
                        ]),
                        docs: vec![],
                    });
                }
            }
            1 => {
                let name = "Callback".to_string();
                if p.def(&name).is_none() {
                    p.defs.push(Def {
                        name: name.clone(),
                        ty: Ty::Func(Func {
                            args: vec![ArgTy::plain(Ty::Service(vec![Method {
                                name: "subscribe".into(),
                                ty: MethTy::Var(name),
                                docs: vec![],
                            }]))],
                            rets: vec![],
                            modes: vec![],
                        }),
                        docs: vec![],
                    });
                }
            }
            _ => {}
        }
        if well_formed(&p).is_ok() {
            expect_accept(ctx, rng, &p, "boundary", &stacks);
        }
    });
}
