//! C04 — accepted subtyping means decoding at the supertype cannot fail.
use super::common::*;
use crate::conv::*;
use crate::corpus::registry::{self as reg, DecOut};
use crate::ctx::{catch, hex, Ctx};
use crate::gen::types::*;
use crate::gen::upgrade::Upgrader;
use crate::gen::values::ValGen;
use crate::model::coerce::{Coercer, Hits};
use crate::model::misc::{has_type, tilde};
use crate::model::subtype as r3;
use crate::model::wire::{decode, encodable, normalize_wire};
use crate::model::*;
use crate::rng::{hash_str, Rng};
use candid::types::subtype::{subtype_with_config, Gamma, OptReport};
use candid::{DecoderConfig, IDLArgs};
use serde_json::json;

fn quota() -> DecoderConfig {
    let mut c = DecoderConfig::new();
    // only a guard against runaway decodes: far above the cost of any generated value (skipping costs 50x)
    c.set_decoding_quota(2_000_000_000);
    c
}

fn checker_accepts(env: &REnv, a: &RType, b: &RType) -> Option<bool> {
    let cenv = to_candid_env(env, None);
    let (ca, cb) = (to_candid_type(a, None), to_candid_type(b, None));
    catch(|| subtype_with_config(OptReport::Silence, &mut Gamma::new(), &cenv, &ca, &cb).is_ok()).ok()
}

fn typed_as(env: &REnv, v: &RValue, t: &RType) -> bool {
    // typing of decoder results: `reserved` positions hold reserved, nat at int has become int
    has_type(env, v, t)
}

fn host_limit(err: &str, tname: &str) -> Option<&'static str> {
    if err.contains("nat overflow") || err.contains("int overflow") || err.contains("Cannot convert nat to i128") {
        return Some("128-bit-range");
    }
    if tname.contains(';') {
        // a fixed-size array anywhere in the target: a vector of another length is outside the property
        // ("fixed-size arrays only with matching length"); the failure then surfaces in many forms
        return Some("array-length");
    }
    None
}

/// One chain t0 -> t1 -> t2 in one environment: whatever pair the checker accepts, values of the subtype
/// must decode at the supertype, as a value of it, equal to the spec's coercion.
fn chain_case(ctx: &mut Ctx, rng: &mut Rng, env: &REnv, ts: &[RType; 3]) {
    let vg = ValGen::new(&env);
    let (cenv, _) = candid_side(&env, &[], None);
    let pairs = [(0usize, 1usize), (1, 2), (0, 2)];
    let mut accepted = [[false; 3]; 3];
    for (a, b) in pairs {
        let Some(ok) = checker_accepts(&env, &ts[a], &ts[b]) else {
            ctx.violation("panic|subtype", "the subtype check panicked", json!({"env": env.to_string(), "t": ts[a].to_string(), "u": ts[b].to_string()}));
            return;
        };
        accepted[a][b] = ok;
        ctx.count(if ok { "cover:checker-accepts" } else { "cover:checker-rejects" });
    }
    // the same questions (and their converses) asked of one memo for as long as the answers are positive, the way a
    // long-lived checker asks them: an acceptance obtained this way binds the decoder just the same
    {
        let cenv = to_candid_env(env, None);
        let cts: Vec<_> = ts.iter().map(|t| to_candid_type(t, None)).collect();
        let mut gamma = Gamma::new();
        let order: Vec<(usize, usize)> = {
            let mut o = vec![(1usize, 0usize), (2, 1), (2, 0), (0, 1), (1, 2), (0, 2)];
            rng.shuffle(&mut o);
            o
        };
        for (a, b) in order {
            let r = catch(|| subtype_with_config(OptReport::Silence, &mut gamma, &cenv, &cts[a], &cts[b]).is_ok());
            match r {
                Ok(true) => {
                    if a < b && !accepted[a][b] {
                        accepted[a][b] = true;
                        ctx.count("cover:checker-accepts-only-with-shared-memo");
                    }
                }
                // a rejected query leaves pairs in the memo that were only proven under the rejected assumption; the
                // property promises independence of earlier *successful* queries, so the memo is dropped here
                _ => gamma = Gamma::new(),
            }
        }
    }
    // values of the subtype, encoded at it by candid's own encoder
    let n_vals = 3;
    for (a, b) in pairs {
        if !accepted[a][b] || !encodable(&env, &ts[a]) || !vg.inhabited(&ts[a]) {
            continue;
        }
        for _ in 0..n_vals {
            let mut fuel = *rng.pick(&[4i64, 20, 50]);
            let Some(v) = vg.gen(rng, &ts[a], &mut fuel) else { continue };
            let Ok(idl) = to_idl(&env, &ts[a], &v, None) else { continue };
            let ca = to_candid_type(&ts[a], None);
            let cb = to_candid_type(&ts[b], None);
            let args = IDLArgs { args: vec![idl] };
            let input = |bytes: &[u8]| {
                json!({"env": env.to_string(), "subtype": ts[a].to_string(), "supertype": ts[b].to_string(),
                       "value": v.to_string().chars().take(600).collect::<String>(), "bytes": hex(bytes)})
            };
            let bytes = match catch(|| args.to_bytes_with_types(&cenv, std::slice::from_ref(&ca))) {
                Ok(Ok(b)) => b,
                _ => {
                    ctx.count("excluded:encode-failed(C10)");
                    continue;
                }
            };
            // the reference decoder agrees on what was sent
            let Ok(d) = decode(&bytes) else {
                ctx.count("excluded:reference-cannot-read(C03)");
                continue;
            };
            let got = catch(|| IDLArgs::from_bytes_with_types_with_config(&bytes, &cenv, std::slice::from_ref(&cb), &quota()));
            let shape_pair = format!("{}|{}", shape(&env, &ts[a], 3), shape(&env, &ts[b], 3));
            match got {
                Err(p) => ctx.violation(&format!("panic|decode-at-supertype|{}", p.sig()), &p.message, input(&bytes)),
                Ok(Err(e)) if format!("{e:?}").contains("cost exceeds the limit") => ctx.count("excluded:guard-quota"),
                Ok(Err(e)) => {
                    // the spec's coercion has no finite derivation for some accepted pairs (a non-optional value at
                    // `type O = opt O`): implementations run into their nesting limit there (spec suite: "fix opt")
                    let wenv = normalize_wire(&d.env);
                    let mut hits = Hits::new();
                    let diverges = {
                        let mut c = Coercer::new(&wenv, &env, &mut hits);
                        matches!(c.coerce(&d.values[0], &d.types[0], &ts[b]), Err(f) if f.1)
                    };
                    if diverges {
                        ctx.count("excluded:coercion-diverges");
                        continue;
                    }
                    // is the pair really in the relation? if not, the *checker* is wrong (C05), still a C04 witness
                    let really = r3::subtype(&env, &ts[a], &ts[b]);
                    let mu = super::c10::mentions_mu_in_reference(&env, &ts[a]) || super::c10::mentions_mu_in_reference(&env, &ts[b]);
                    let sig = if mu && really {
                        "accepted-subtype-fails-to-decode|reference-type-mentions-self-containing-record".to_string()
                    } else {
                        format!("accepted-subtype-fails-to-decode|{}|{}", if really { "relation-holds" } else { "checker-accepts-non-subtype" }, err_class(&e))
                    };
                    ctx.violation(
                        &sig,
                        &format!("the checker accepts {} <: {} but a value of the subtype fails to decode at the supertype: {}", ts[a], ts[b], err_class(&e)),
                        input(&bytes),
                    )
                }
                Ok(Ok(res)) => {
                    let rv = model_value(&res.args[0]);
                    if !typed_as(&env, &rv, &ts[b]) {
                        ctx.violation(
                            &format!("result-not-of-supertype|{}", shape(&env, &ts[b], 2)),
                            &format!("decoded {rv} which is not a value of {}", ts[b]),
                            input(&bytes),
                        );
                    }
                    // equals the spec's coercion
                    let wenv = normalize_wire(&d.env);
                    let mut hits = Hits::new();
                    let want = {
                        let mut c = Coercer::new(&wenv, &env, &mut hits);
                        c.coerce(&d.values[0], &d.types[0], &ts[b])
                    };
                    match want {
                        Ok(w) => {
                            if let Some(df) = diff_all(std::slice::from_ref(&w), std::slice::from_ref(&rv)) {
                                ctx.violation("result-differs-from-coercion", &format!("spec coercion (left) vs decoded (right): {df}"), input(&bytes));
                            } else {
                                ctx.count("agree:decodes-at-supertype");
                            }
                        }
                        Err(f) if f.1 => ctx.count("excluded:coercion-diverges"),
                        Err(f) => ctx.violation("decodes-but-coercion-fails", &format!("decoded {rv} but the spec coercion fails: {}", f.0), input(&bytes)),
                    }
                    // indirect via the intermediate type vs direct (only for the chain 0 -> 1 -> 2)
                    if (a, b) == (0, 1) && accepted[1][2] {
                        let c1 = to_candid_type(&ts[1], None);
                        let c2 = to_candid_type(&ts[2], None);
                        let step2 = catch(|| {
                            res.to_bytes_with_types(&cenv, std::slice::from_ref(&c1))
                                .and_then(|b1| IDLArgs::from_bytes_with_types_with_config(&b1, &cenv, std::slice::from_ref(&c2), &quota()))
                        });
                        let direct = catch(|| IDLArgs::from_bytes_with_types_with_config(&bytes, &cenv, std::slice::from_ref(&c2), &quota()));
                        if let (Ok(Ok(ind)), Ok(Ok(dir))) = (&step2, &direct) {
                            let (x, y) = (model_value(&ind.args[0]), model_value(&dir.args[0]));
                            if !tilde(&reserved_null(&x), &reserved_null(&y)) {
                                ctx.violation(
                                    "indirect-differs-from-direct",
                                    &format!("via {}: {x}; directly at {}: {y} — differ by more than optional values turning into null", ts[1], ts[2]),
                                    input(&bytes),
                                );
                            } else {
                                ctx.count("agree:indirect~direct");
                            }
                        } else if accepted[0][2] && matches!(direct, Ok(Err(_))) {
                            // reported by the (0,2) pair itself
                        } else if matches!(step2, Ok(Err(_))) && matches!(direct, Ok(Ok(_))) {
                            ctx.count("observed:indirect-fails-direct-succeeds");
                        }
                    }
                    if ts[a] != ts[b] {
                        ctx.nontrivial(hash_str(&shape_pair));
                    }
                }
            }
        }
    }
    ctx.sample(|| json!({"env": env.to_string(), "chain": ts.iter().map(|t| t.to_string()).collect::<Vec<_>>(), "accepted": format!("{accepted:?}")}));
}

pub fn run(ctx: &mut Ctx) {
    let cfg = TypeCfg::default();
    // ---- untyped: chains t0 -> t1 -> t2 of upgrade steps ---------------------------------------------
    ctx.cases("untyped-upgrade-chains", 0.5, |ctx, rng| {
        let env0 = gen_env(rng, &cfg);
        let t0s = gen_types(rng, &cfg, &env0, 1);
        let t0 = t0s[0].clone();
        if !encodable(&env0, &t0) {
            return;
        }
        let mut up = Upgrader::new(&cfg);
        up.illegal_pct = *rng.pick(&[0, 5, 25]);
        up.edit_pct = 20 + rng.below(25);
        let (env1, t1s) = up.up_env(rng, &env0, &t0s);
        let (env2, t2s) = up.up_env(rng, &env1, &t1s);
        let (t1, t2) = (t1s[0].clone(), t2s[0].clone());
        // one merged environment: [env0 | env1 | env2]
        let mut env = env0.clone();
        let o1 = env.append(&env1);
        let o2 = env.append(&env2);
        if env.0.iter().any(|d| env.unfold(d).is_none()) {
            return;
        }
        let ts = [t0.clone(), t1.shift_refs(o1), t2.shift_refs(o2)];
        chain_case(ctx, rng, &env, &ts);
    });
    // ---- small scope: two mutually referring definitions per side from the C05 catalogue, related payloads ----
    ctx.cases("small-scope-recursive-pairs", 0.15, |ctx, rng| {
        let hp = crate::model::misc::label_hash;
        let cat_at = |o: usize| super::c05::catalogue(&RType::Ref(o), &RType::Ref(o + 1), true);
        let n = cat_at(0).len();
        let i0 = [rng.usize(n), rng.usize(n)];
        let pick_near = |rng: &mut Rng, i: usize| if rng.chance(2, 5) { i } else { rng.usize(n) };
        let i1 = [pick_near(rng, i0[0]), pick_near(rng, i0[1])];
        let i2 = [pick_near(rng, i1[0]), pick_near(rng, i1[1])];
        let env = REnv(vec![
            cat_at(0)[i0[0]].clone(), cat_at(0)[i0[1]].clone(),
            cat_at(2)[i1[0]].clone(), cat_at(2)[i1[1]].clone(),
            cat_at(4)[i2[0]].clone(), cat_at(4)[i2[1]].clone(),
        ]);
        let j = rng.below(7);
        let payload = |o: usize| -> RType {
            let (x, y) = (RType::Ref(o), RType::Ref(o + 1));
            match j {
                0 => x,
                1 => y,
                2 => RType::record(vec![(hp("p"), RType::opt(x)), (hp("q"), y)]),
                3 => RType::record(vec![(hp("p"), RType::opt(RType::vec(x))), (hp("q"), y)]),
                4 => RType::record(vec![(hp("p"), RType::opt(RType::record(vec![(hp("x"), x)]))), (hp("q"), y)]),
                5 => RType::record(vec![(hp("p"), RType::opt(RType::vec(y))), (hp("q"), x)]),
                _ => RType::variant(vec![(hp("p"), RType::opt(y)), (hp("q"), RType::vec(x))]),
            }
        };
        let ts = [payload(0), payload(2), payload(4)];
        ctx.count("cover:small-scope-chain");
        chain_case(ctx, rng, &env, &ts);
    });
    // ---- native: pairs of corpus types whose Candid types the checker relates ----------------------
    let n_types = reg::len();
    ctx.cases("native-pairs", 0.35, |ctx, rng| {
        let i = rng.usize(n_types);
        // bias the partner towards types that often are supertypes: same leaf under Option, Int for Nat, ...
        let j = rng.usize(n_types);
        let (ei, ti) = reg::with(i, |t| t.rtype());
        let (ej, tj) = reg::with(j, |t| t.rtype());
        let mut env = ei.clone();
        let off = env.append(&ej);
        let tj = tj.shift_refs(off);
        let Some(ok) = checker_accepts(&env, &ti, &tj) else { return };
        let (ni, nj) = (reg::with(i, |t| t.name()), reg::with(j, |t| t.name()));
        if !ok {
            ctx.count("cover:native-pair-rejected");
            return;
        }
        ctx.count("cover:native-pair-accepted");
        let mut r2 = Rng::new(rng.next());
        let Ok((bytes, models)) = reg::with(i, |t| t.encode_gen(&mut r2, 25, 1)) else { return };
        let input = || json!({"from": ni, "to": nj, "value": models[0].to_string().chars().take(500).collect::<String>(), "bytes": hex(&bytes)});
        match reg::with(j, |t| t.decode(&bytes, &quota())) {
            DecOut::Panic(p) => ctx.violation(&format!("panic|native-decode|{}", p.sig()), &p.message, input()),
            DecOut::Ok { model, .. } => {
                let _ = model;
                ctx.count("agree:native-decodes-at-supertype");
                if ni != nj {
                    ctx.nontrivial(hash_str(&format!("{ni}|{nj}")));
                }
            }
            DecOut::Err(e) => match host_limit(&e, &nj) {
                Some(l) => ctx.count(&format!("excluded:host-limit:{l}")),
                None => {
                    let really = r3::subtype(&env, &ti, &tj);
                    let ec = err_class_str(&e);
                    let sig = if e.contains("is not a tuple type") || e.contains("expect a key-value pair") {
                        "native-stricter|rust-tuple-or-map-entry|wire-record-not-tuple-shaped".to_string()
                    } else {
                        format!(
                            "accepted-subtype-fails-native-decode|{}|{}|{}|{ec}",
                            if really { "relation-holds" } else { "checker-accepts-non-subtype" },
                            ni.split('<').next().unwrap_or(""),
                            nj.split('<').next().unwrap_or("")
                        )
                    };
                    ctx.violation(&sig, &format!("the checker accepts {ni} <: {nj} (as Candid types) but decoding a {ni} at {nj} fails: {ec}"), input());
                }
            },
        }
        ctx.sample(input);
    });
}

fn reserved_null(v: &RValue) -> RValue {
    match v {
        RValue::Reserved => RValue::Null,
        RValue::Opt(x) => RValue::opt(reserved_null(x)),
        RValue::Vec(xs) => RValue::Vec(xs.iter().map(reserved_null).collect()),
        RValue::Record(fs) => RValue::Record(fs.iter().map(|(i, x)| (*i, reserved_null(x))).collect()),
        RValue::Variant(i, x) => RValue::Variant(*i, Box::new(reserved_null(x))),
        x => x.clone(),
    }
}
