//! Helpers shared by the wire-level monitors.
use crate::conv::*;
use crate::gen::{hostile, types::*, upgrade::Upgrader, values::*};
use crate::model::misc::label_hash;
use crate::model::wire::*;
use crate::model::*;
use crate::rng::Rng;
use candid::types::{Type, TypeEnv};

pub struct WireCase {
    pub env: REnv,
    pub types: Vec<RType>,
    pub values: Vec<RValue>,
    pub bytes: Vec<u8>,
    pub opts: EncOpts,
}

/// A valid message of random, possibly recursive types (R1-encoded, maybe with a legal
/// non-canonical table).
pub fn gen_wire_case(rng: &mut Rng, cfg: &TypeCfg, max_args: usize, fuel: i64, noncanonical: bool) -> Option<WireCase> {
    let env = gen_env(rng, cfg);
    let n = rng.usize(max_args + 1);
    let cand = gen_types(rng, cfg, &env, n);
    let vg = ValGen::new(&env);
    let mut fuel = fuel;
    let mut types = Vec::new();
    let mut values = Vec::new();
    for t in cand {
        if !encodable(&env, &t) {
            continue;
        }
        if let Some(v) = vg.gen(rng, &t, &mut fuel) {
            types.push(t);
            values.push(v);
        }
    }
    let opts = if noncanonical {
        EncOpts {
            duplicate_entries: rng.bool(),
            unused_entries: if rng.chance(1, 3) { rng.usize(4) } else { 0 },
            shuffle: rng.bool(),
            pad_lebs: rng.chance(1, 5),
        }
    } else {
        EncOpts::default()
    };
    let bytes = encode(&env, &types, &values, &opts, Some(rng)).ok()?;
    Some(WireCase {
        env,
        types,
        values,
        bytes,
        opts,
    })
}

#[derive(Clone, Copy, Debug, PartialEq, Eq)]
pub enum ExpectKind {
    Identical,
    Legal,
    Mixed,
    Unrelated,
}

/// Expected-side environment and types derived from the wire side.
pub fn gen_expected(rng: &mut Rng, cfg: &TypeCfg, wc: &WireCase) -> (REnv, Vec<RType>, ExpectKind) {
    let kind = match rng.below(10) {
        0 | 1 => ExpectKind::Identical,
        2..=5 => ExpectKind::Legal,
        6..=8 => ExpectKind::Mixed,
        _ => ExpectKind::Unrelated,
    };
    let (mut env, mut ts) = match kind {
        ExpectKind::Identical => (wc.env.clone(), wc.types.clone()),
        ExpectKind::Legal | ExpectKind::Mixed => {
            let mut up = Upgrader::new(cfg);
            up.illegal_pct = if kind == ExpectKind::Legal { 3 } else { 35 };
            up.edit_pct = 20 + rng.below(30);
            up.up_env(rng, &wc.env, &wc.types)
        }
        ExpectKind::Unrelated => {
            let env = gen_env(rng, cfg);
            let n = wc.types.len();
            let ts = gen_types(rng, cfg, &env, n);
            (env, ts)
        }
    };
    // argument count changes
    match rng.below(8) {
        0 if !ts.is_empty() => {
            ts.pop();
        }
        1 => {
            let extra = match rng.below(4) {
                0 => RType::opt(RType::Nat),
                1 => RType::Null,
                2 => RType::Reserved,
                _ => gen_types(rng, cfg, &env, 1).pop().unwrap(),
            };
            ts.push(extra);
        }
        _ => {}
    }
    // the expected environment may contain definitions that are not functions where services need them
    let _ = &mut env;
    (env, ts, kind)
}

/// Spell some field ids of the expected side as names (id = hash(name)).
pub fn gen_names(rng: &mut Rng, env: &REnv, ts: &[RType]) -> Names {
    let mut names = Names::new();
    fn walk(t: &RType, f: &mut dyn FnMut(u32)) {
        match t {
            RType::Opt(x) | RType::Vec(x) => walk(x, f),
            RType::Record(fs) | RType::Variant(fs) => {
                for (i, x) in fs {
                    f(*i);
                    walk(x, f);
                }
            }
            RType::Func { args, rets, .. } => {
                for x in args.iter().chain(rets.iter()) {
                    walk(x, f)
                }
            }
            RType::Service(ms) => {
                for (_, x) in ms {
                    walk(x, f)
                }
            }
            _ => {}
        }
    }
    let mut ids = Vec::new();
    for t in env.0.iter().chain(ts.iter()) {
        walk(t, &mut |i| ids.push(i));
    }
    for id in ids {
        if let Some(n) = NAME_POOL.iter().find(|n| label_hash(n) == id) {
            if rng.chance(2, 3) {
                names.insert(id, n.to_string());
            }
        }
    }
    names
}

pub fn candid_side(env: &REnv, ts: &[RType], names: Option<&Names>) -> (TypeEnv, Vec<Type>) {
    (
        to_candid_env(env, names),
        ts.iter().map(|t| to_candid_type(t, names)).collect(),
    )
}

/// Coarse, stable class of a candid error: the root cause line (anyhow chain, last entry) without
/// digits / hex payloads / state dumps.
pub fn err_class(e: &dyn std::fmt::Debug) -> String {
    err_class_str(&format!("{e:?}"))
}
/// Same, on the text of an error's `{:?}` rendering.
pub fn err_class_str(s: &str) -> String {
    let mut cand: Vec<String> = Vec::new();
    for line in s.lines() {
        let mut l = line.trim();
        if l.is_empty() || l.starts_with("input:") || l.starts_with("table:") || l.starts_with("type table")
            || l.starts_with("wire_type:") || l.starts_with("Caused by") || l.starts_with("Stack backtrace")
        {
            continue;
        }
        // "0: message" entries of the cause chain
        if let Some(pos) = l.find(": ") {
            if l[..pos].chars().all(|c| c.is_ascii_digit()) {
                l = &l[pos + 2..];
            }
        }
        if l.starts_with("input:") || l.starts_with("type ") && l.contains(" = ") {
            continue;
        }
        cand.push(l.to_string());
    }
    let root = cand.last().cloned().unwrap_or_default();
    let mut out = String::new();
    for w in root.split_whitespace().take(8) {
        let w: String = w.chars().filter(|c| !c.is_ascii_digit()).collect();
        if w.len() > 24 {
            continue;
        }
        if !out.is_empty() {
            out.push(' ');
        }
        out.push_str(&w);
    }
    out
}

/// First difference between two abstract values, as a path.
pub fn diff(a: &RValue, b: &RValue, path: &mut String) -> Option<String> {
    match (a, b) {
        (RValue::Opt(x), RValue::Opt(y)) => {
            path.push_str(".?");
            diff(x, y, path)
        }
        (RValue::Vec(x), RValue::Vec(y)) => {
            if x.len() != y.len() {
                return Some(format!("{path}: vec length {} vs {}", x.len(), y.len()));
            }
            for (i, (p, q)) in x.iter().zip(y.iter()).enumerate() {
                let l = path.len();
                path.push_str(&format!("[{i}]"));
                if let Some(d) = diff(p, q, path) {
                    return Some(d);
                }
                path.truncate(l);
            }
            None
        }
        (RValue::Record(x), RValue::Record(y)) => {
            let xi: Vec<u32> = x.iter().map(|f| f.0).collect();
            let yi: Vec<u32> = y.iter().map(|f| f.0).collect();
            if xi != yi {
                return Some(format!("{path}: record fields {xi:?} vs {yi:?}"));
            }
            for ((i, p), (_, q)) in x.iter().zip(y.iter()) {
                let l = path.len();
                path.push_str(&format!(".{i}"));
                if let Some(d) = diff(p, q, path) {
                    return Some(d);
                }
                path.truncate(l);
            }
            None
        }
        (RValue::Variant(i, p), RValue::Variant(j, q)) => {
            if i != j {
                return Some(format!("{path}: variant tag {i} vs {j}"));
            }
            path.push_str(&format!("#{i}"));
            diff(p, q, path)
        }
        (x, y) => {
            if x == y {
                None
            } else {
                let xs = x.to_string();
                let ys = y.to_string();
                Some(format!(
                    "{path}: {} vs {}",
                    xs.chars().take(200).collect::<String>(),
                    ys.chars().take(200).collect::<String>()
                ))
            }
        }
    }
}

pub fn diff_all(a: &[RValue], b: &[RValue]) -> Option<String> {
    if a.len() != b.len() {
        return Some(format!("argument count {} vs {}", a.len(), b.len()));
    }
    for (i, (x, y)) in a.iter().zip(b.iter()).enumerate() {
        let mut p = format!("arg{i}");
        if let Some(d) = diff(x, y, &mut p) {
            return Some(d);
        }
    }
    None
}

/// Shape of a type with ids and names abstracted, for distinctness hashing.
pub fn shape(env: &REnv, t: &RType, depth: usize) -> String {
    if depth == 0 {
        return "…".into();
    }
    match t {
        RType::Ref(i) => match env.0.get(*i) {
            Some(x) => format!("µ{}", shape(env, x, depth - 1)),
            None => "?".into(),
        },
        RType::Opt(x) => format!("opt {}", shape(env, x, depth - 1)),
        RType::Vec(x) => format!("vec {}", shape(env, x, depth - 1)),
        RType::Record(fs) => format!(
            "rec{{{}}}",
            fs.iter().map(|f| shape(env, &f.1, depth - 1)).collect::<Vec<_>>().join(";")
        ),
        RType::Variant(fs) => format!(
            "var{{{}}}",
            fs.iter().map(|f| shape(env, &f.1, depth - 1)).collect::<Vec<_>>().join(";")
        ),
        RType::Func { args, rets, modes } => format!("func/{}/{}/{}", args.len(), rets.len(), modes.len()),
        RType::Service(ms) => format!("service/{}", ms.len()),
        p => p.to_string(),
    }
}

pub fn mutate_bytes(rng: &mut Rng, b: &[u8]) -> Vec<u8> {
    hostile::mutate(rng, b)
}

/// `RValue::Future` reads as null through the untyped API.
pub fn future_as_null(v: &RValue) -> RValue {
    match v {
        RValue::Future => RValue::Null,
        RValue::Opt(x) => RValue::opt(future_as_null(x)),
        RValue::Vec(xs) => RValue::Vec(xs.iter().map(future_as_null).collect()),
        RValue::Record(fs) => RValue::Record(fs.iter().map(|(i, x)| (*i, future_as_null(x))).collect()),
        RValue::Variant(i, x) => RValue::Variant(*i, Box::new(future_as_null(x))),
        x => x.clone(),
    }
}

/// A hand-built spelling of a decoder-shaped value that `annotate_type` maps back to the same value:
/// record fields in another order, absent null/opt/reserved fields, a non-negative `int` given as `Nat`,
/// a blob given as a vector of `Nat8`, `Null` for an absent option, variant index left at 0.
pub fn hand_built(rng: &mut Rng, v: &candid::IDLValue) -> candid::IDLValue {
    use candid::types::value::{IDLField, VariantValue};
    use candid::IDLValue as V;
    match v {
        V::Int(i) if i.0 >= 0.into() && rng.chance(1, 2) => V::Nat(candid::Nat(i.0.to_biguint().unwrap())),
        V::Blob(b) if rng.chance(1, 2) => V::Vec(b.iter().map(|x| V::Nat8(*x)).collect()),
        V::None if rng.chance(1, 3) => V::Null,
        V::Opt(x) => V::Opt(Box::new(hand_built(rng, x))),
        V::Vec(xs) => V::Vec(xs.iter().map(|x| hand_built(rng, x)).collect()),
        V::Record(fs) => {
            let mut out: Vec<IDLField> = Vec::new();
            for f in fs {
                if matches!(f.val, V::None | V::Null | V::Reserved) && rng.chance(1, 3) {
                    continue;
                }
                out.push(IDLField { id: f.id.clone(), val: hand_built(rng, &f.val) });
            }
            if rng.chance(2, 3) {
                rng.shuffle(&mut out);
            }
            V::Record(out)
        }
        V::Variant(x) => V::Variant(VariantValue(
            Box::new(IDLField { id: x.0.id.clone(), val: hand_built(rng, &x.0.val) }),
            if rng.bool() { 0 } else { x.1 },
        )),
        x => x.clone(),
    }
}
