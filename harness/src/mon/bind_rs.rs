//! Rust-binding helpers shared by C18 and C19: structural facts about emitted Rust source (via `syn`),
//! token-level comparison (via `proc_macro2`), and the cargo pipeline that compiles emitted type
//! definitions and reports the Candid type computed by the derive macro for every item (C18).
use proc_macro2::{Delimiter, TokenStream, TokenTree};
use std::collections::{BTreeMap, BTreeSet};
use std::str::FromStr;
use syn::visit::Visit;

#[derive(Clone, Debug, Default)]
pub struct RsFacts {
    /// names of type-level items (struct / enum / type alias / define_function! / define_service!), in order
    pub items: Vec<String>,
    /// struct name -> field names as written (raw identifiers keep their `r#`)
    pub fields: BTreeMap<String, Vec<String>>,
    /// enum name -> variant names
    pub variants: BTreeMap<String, Vec<String>>,
    /// single-identifier type paths referenced anywhere in type position
    pub type_refs: BTreeSet<String>,
    /// method-like functions: fns inside impl blocks and top-level fns
    pub fns: Vec<String>,
    /// string literals inside function bodies
    pub fn_literals: Vec<String>,
    /// values of #[serde(rename = "…")]
    pub renames: Vec<String>,
}

impl RsFacts {
    pub fn duplicate_items(&self) -> Vec<String> {
        dups(&self.items)
    }
    pub fn duplicate_fields(&self) -> Vec<(String, String)> {
        let mut out = Vec::new();
        for (s, fs) in &self.fields {
            for d in dups(fs) {
                out.push((s.clone(), d));
            }
        }
        out
    }
    pub fn duplicate_variants(&self) -> Vec<(String, String)> {
        let mut out = Vec::new();
        for (s, fs) in &self.variants {
            for d in dups(fs) {
                out.push((s.clone(), d));
            }
        }
        out
    }
}

pub fn dups(xs: &[String]) -> Vec<String> {
    let mut seen = BTreeSet::new();
    let mut out = BTreeSet::new();
    for x in xs {
        if !seen.insert(x.clone()) {
            out.insert(x.clone());
        }
    }
    out.into_iter().collect()
}

/// names a generated binding may use without defining them
pub const RUST_KNOWN: &[&str] = &[
    "Principal", "CandidType", "Deserialize", "Option", "Vec", "Box", "String", "Result", "bool", "u8", "u16", "u32",
    "u64", "u128", "i8", "i16", "i32", "i64", "i128", "f32", "f64", "Self", "str", "usize", "isize", "char",
];

struct V<'a> {
    f: &'a mut RsFacts,
    in_fn: usize,
}

fn macro_name(tokens: &TokenStream) -> (Option<String>, Vec<TokenTree>) {
    // [pub [(…)]] Name : rest
    let v: Vec<TokenTree> = tokens.clone().into_iter().collect();
    let mut i = 0;
    if let Some(TokenTree::Ident(id)) = v.first() {
        if id == "pub" {
            i = 1;
            if let Some(TokenTree::Group(g)) = v.get(1) {
                if g.delimiter() == Delimiter::Parenthesis {
                    i = 2;
                }
            }
        }
    }
    match v.get(i) {
        Some(TokenTree::Ident(id)) => (Some(id.to_string()), v[i + 1..].to_vec()),
        _ => (None, v),
    }
}

fn macro_type_refs(tts: &[TokenTree], out: &mut BTreeSet<String>) {
    const SKIP: &[&str] = &["candid", "std", "core", "serde_bytes", "query", "oneway", "composite_query", "func", "ty", "crate"];
    for (i, t) in tts.iter().enumerate() {
        match t {
            TokenTree::Group(g) => {
                let inner: Vec<TokenTree> = g.stream().into_iter().collect();
                macro_type_refs(&inner, out);
            }
            TokenTree::Ident(id) => {
                let s = id.to_string();
                let prev_colon = i >= 2
                    && matches!(&tts[i - 1], TokenTree::Punct(p) if p.as_char() == ':')
                    && matches!(&tts[i - 2], TokenTree::Punct(p) if p.as_char() == ':');
                if prev_colon || SKIP.contains(&s.as_str()) {
                    continue;
                }
                out.insert(s);
            }
            _ => {}
        }
    }
}

impl<'ast, 'a> Visit<'ast> for V<'a> {
    fn visit_item_struct(&mut self, i: &'ast syn::ItemStruct) {
        let name = i.ident.to_string();
        self.f.items.push(name.clone());
        let fs: Vec<String> = i.fields.iter().filter_map(|f| f.ident.as_ref().map(|x| x.to_string())).collect();
        self.f.fields.entry(name).or_default().extend(fs);
        syn::visit::visit_item_struct(self, i);
    }
    fn visit_item_enum(&mut self, i: &'ast syn::ItemEnum) {
        let name = i.ident.to_string();
        self.f.items.push(name.clone());
        let vs: Vec<String> = i.variants.iter().map(|v| v.ident.to_string()).collect();
        self.f.variants.entry(name.clone()).or_default().extend(vs);
        for v in &i.variants {
            let fs: Vec<String> = v.fields.iter().filter_map(|f| f.ident.as_ref().map(|x| x.to_string())).collect();
            if !fs.is_empty() {
                self.f.fields.entry(format!("{name}::{}", v.ident)).or_default().extend(fs);
            }
        }
        syn::visit::visit_item_enum(self, i);
    }
    fn visit_item_type(&mut self, i: &'ast syn::ItemType) {
        self.f.items.push(i.ident.to_string());
        syn::visit::visit_item_type(self, i);
    }
    fn visit_item_macro(&mut self, i: &'ast syn::ItemMacro) {
        let last = i.mac.path.segments.last().map(|s| s.ident.to_string()).unwrap_or_default();
        if last == "define_function" || last == "define_service" {
            let (name, rest) = macro_name(&i.mac.tokens);
            if let Some(n) = name {
                self.f.items.push(n);
            }
            macro_type_refs(&rest, &mut self.f.type_refs);
        }
    }
    fn visit_type_path(&mut self, t: &'ast syn::TypePath) {
        if t.qself.is_none() && t.path.leading_colon.is_none() && t.path.segments.len() == 1 {
            self.f.type_refs.insert(t.path.segments[0].ident.to_string());
        }
        syn::visit::visit_type_path(self, t);
    }
    fn visit_item_fn(&mut self, i: &'ast syn::ItemFn) {
        self.f.fns.push(i.sig.ident.to_string());
        self.in_fn += 1;
        syn::visit::visit_item_fn(self, i);
        self.in_fn -= 1;
    }
    fn visit_impl_item_fn(&mut self, i: &'ast syn::ImplItemFn) {
        self.f.fns.push(i.sig.ident.to_string());
        self.in_fn += 1;
        syn::visit::visit_impl_item_fn(self, i);
        self.in_fn -= 1;
    }
    fn visit_expr_lit(&mut self, e: &'ast syn::ExprLit) {
        if self.in_fn > 0 {
            if let syn::Lit::Str(s) = &e.lit {
                self.f.fn_literals.push(s.value());
            }
        }
    }
    fn visit_attribute(&mut self, a: &'ast syn::Attribute) {
        if a.path().is_ident("serde") {
            let _ = a.parse_nested_meta(|m| {
                if m.path.is_ident("rename") {
                    let v = m.value()?;
                    let s: syn::LitStr = v.parse()?;
                    self.f.renames.push(s.value());
                }
                Ok(())
            });
        }
    }
}

pub fn analyze_rust(src: &str) -> Result<RsFacts, String> {
    let file = syn::parse_file(src).map_err(|e| {
        let lc = e.span().start();
        format!("{e} at line {} column {}", lc.line, lc.column)
    })?;
    let mut f = RsFacts::default();
    let mut v = V { f: &mut f, in_fn: 0 };
    v.visit_file(&file);
    Ok(f)
}

/// The stub template embeds the service's Candid text in `*br#"…"#`: the text must be ASCII and must not
/// contain `"#`. Returns the problem class if the emitted literal violates that.
pub fn stub_metadata_problem(out: &str) -> Option<&'static str> {
    let start = out.find("*br#\"")? + 5;
    let end = out.rfind("\"#;")?;
    if end < start {
        return Some("raw-string-terminated-by-quote-hash");
    }
    let body = &out[start..end];
    if body.contains("\"#") {
        Some("raw-string-terminated-by-quote-hash")
    } else if !body.is_ascii() {
        Some("non-ascii-in-raw-byte-string")
    } else {
        None
    }
}

/// Token stream of a Rust source as strings, without doc comments / doc attributes.
pub fn rust_code_tokens(src: &str) -> Result<Vec<String>, String> {
    fn go(ts: TokenStream, out: &mut Vec<String>) {
        let v: Vec<TokenTree> = ts.into_iter().collect();
        let mut i = 0;
        while i < v.len() {
            // #[doc = …] and #![doc = …]
            if let TokenTree::Punct(p) = &v[i] {
                if p.as_char() == '#' {
                    let mut j = i + 1;
                    if let Some(TokenTree::Punct(q)) = v.get(j) {
                        if q.as_char() == '!' {
                            j += 1;
                        }
                    }
                    if let Some(TokenTree::Group(g)) = v.get(j) {
                        if g.delimiter() == Delimiter::Bracket {
                            if let Some(TokenTree::Ident(id)) = g.stream().into_iter().next() {
                                if id == "doc" {
                                    i = j + 1;
                                    continue;
                                }
                            }
                        }
                    }
                }
            }
            match &v[i] {
                TokenTree::Group(g) => {
                    let (o, c) = match g.delimiter() {
                        Delimiter::Parenthesis => ("(", ")"),
                        Delimiter::Brace => ("{", "}"),
                        Delimiter::Bracket => ("[", "]"),
                        Delimiter::None => ("", ""),
                    };
                    out.push(o.to_string());
                    go(g.stream(), out);
                    out.push(c.to_string());
                }
                t => out.push(t.to_string()),
            }
            i += 1;
        }
    }
    let ts = TokenStream::from_str(src).map_err(|e| format!("{e}"))?;
    let mut raw = Vec::new();
    go(ts, &mut raw);
    // trailing separators depend on the layout chosen by the pretty printer
    let mut out = Vec::with_capacity(raw.len());
    for (i, t) in raw.iter().enumerate() {
        if t == "," {
            if let Some(n) = raw.get(i + 1) {
                if matches!(n.as_str(), "}" | ")" | "]" | ">") {
                    continue;
                }
            }
        }
        out.push(t.clone());
    }
    Ok(out)
}

// ---------------------------------------------------------------------------------------------
// C18 cargo pipeline

use super::bind_js::{graph_to_model, verif_root, JsGraphs};
use serde_json::Value;
use std::path::{Path, PathBuf};
use std::process::Command;

#[derive(Clone, Debug)]
pub struct RsModule {
    /// module number (file src/m_<k>.rs)
    pub k: usize,
    /// the emitted type definitions
    pub type_defs: String,
    /// (item label, Rust type expression valid inside the module)
    pub items: Vec<(String, String)>,
}

#[derive(Clone, Debug)]
pub struct CompileError {
    pub code: String,
    pub message: String,
    pub rendered: String,
}

impl CompileError {
    /// error code + message with quoted names blanked
    pub fn class(&self) -> String {
        let mut out = String::new();
        let mut in_q = false;
        for c in self.message.lines().next().unwrap_or("").chars() {
            if c == '`' {
                in_q = !in_q;
                out.push('`');
            } else if !in_q && !c.is_ascii_digit() {
                out.push(c);
            }
        }
        let out: String = out.chars().take(80).collect();
        format!("{}|{}", if self.code.is_empty() { "E----" } else { &self.code }, out)
    }
}

#[derive(Debug, Default)]
pub struct RsBatchResult {
    /// (module, item) -> graph or probe error
    pub graphs: BTreeMap<(usize, String), Result<JsGraphs, String>>,
    /// modules that did not compile in the batch, with their diagnostics
    pub failed: BTreeMap<usize, Vec<CompileError>>,
    /// subset of `failed` re-compiled alone and failing again (diagnostics of the solo build)
    pub confirmed: BTreeMap<usize, Vec<CompileError>>,
    /// failed in the batch but compiled alone
    pub not_reproduced: Vec<usize>,
    pub build_seconds: f64,
    pub builds: usize,
}

pub struct RsPipeline {
    pub template: PathBuf,
    pub gen: PathBuf,
    pub target: PathBuf,
    pub repo: PathBuf,
}

fn module_of(v: &Value) -> Option<usize> {
    fn from_name(s: &str) -> Option<usize> {
        let i = s.find("src/m_")?;
        let rest = &s[i + 6..];
        let digits: String = rest.chars().take_while(|c| c.is_ascii_digit()).collect();
        if digits.is_empty() || !rest[digits.len()..].starts_with(".rs") {
            return None;
        }
        digits.parse().ok()
    }
    fn spans(v: &Value) -> Option<usize> {
        for s in v["spans"].as_array().into_iter().flatten() {
            let mut cur = s;
            // walk out of macro expansions to the invocation site
            for _ in 0..8 {
                if let Some(k) = cur["file_name"].as_str().and_then(from_name) {
                    return Some(k);
                }
                if cur["expansion"].is_object() {
                    cur = &cur["expansion"]["span"];
                } else {
                    break;
                }
            }
        }
        for c in v["children"].as_array().into_iter().flatten() {
            if let Some(k) = spans(c) {
                return Some(k);
            }
        }
        None
    }
    spans(v).or_else(|| v["rendered"].as_str().and_then(from_name))
}

impl RsPipeline {
    /// `tag` distinguishes workers (only one worker should run the pipeline at a time, see props).
    pub fn new(tag: &str) -> Self {
        let root = verif_root().join("rsbind");
        RsPipeline {
            template: root.join("template"),
            gen: root.join(format!("gen_{tag}")),
            target: match std::env::var("VERIF_RSBIND_TARGET") {
                Ok(s) if !s.is_empty() => PathBuf::from(s),
                // shard 0 uses the directory `./check setup` pre-builds; further workers keep their own (their
                // first round compiles candid and serde once)
                _ if tag.ends_with('0') && tag.len() == 2 => root.join("target"),
                _ => root.join(format!("target_{tag}")),
            },
            repo: PathBuf::from(std::env::var("VERIF_REPO").unwrap_or_else(|_| "/repo".to_string())),
        }
    }

    fn write_crate(&self, mods: &[&RsModule]) -> Result<(), String> {
        let src = self.gen.join("src");
        let _ = std::fs::remove_dir_all(&src);
        std::fs::create_dir_all(&src).map_err(|e| format!("mkdir {src:?}: {e}"))?;
        let toml = std::fs::read_to_string(self.template.join("Cargo.toml"))
            .map_err(|e| format!("template Cargo.toml: {e}"))?
            .replace("@REPO@", &self.repo.to_string_lossy());
        std::fs::write(self.gen.join("Cargo.toml"), toml).map_err(|e| e.to_string())?;
        std::fs::copy(self.repo.join("Cargo.lock"), self.gen.join("Cargo.lock")).map_err(|e| format!("Cargo.lock: {e}"))?;
        std::fs::copy(self.template.join("src/graph.rs"), src.join("graph.rs")).map_err(|e| format!("graph.rs: {e}"))?;
        // (doc comments are copied from the program: rustc's deny-by-default "trojan source" lints on their content
        // are not the binding's business; the lint is only controllable from the crate root)
        let mut main = String::from(
            "#![allow(warnings)]\n#![allow(text_direction_codepoint_in_comment, text_direction_codepoint_in_literal)]\nmod graph;\n",
        );
        for m in mods {
            main.push_str(&format!("mod m_{};\n", m.k));
        }
        main.push_str("fn main() {\n    let mut out: Vec<String> = Vec::new();\n");
        for m in mods {
            main.push_str(&format!("    m_{}::__vrf_probe(&mut out);\n", m.k));
        }
        main.push_str("    for l in out {\n        println!(\"{}\", l);\n    }\n}\n");
        std::fs::write(src.join("main.rs"), main).map_err(|e| e.to_string())?;
        for m in mods {
            let mut s = String::from("#![allow(warnings)]\nuse candid::{self, CandidType, Deserialize, Principal};\n\n");
            s.push_str(&m.type_defs);
            s.push_str("\n\npub fn __vrf_probe(out: &mut ::std::vec::Vec<::std::string::String>) {\n");
            for (label, ty) in &m.items {
                s.push_str(&format!("    crate::graph::emit::<{ty}>(out, {}, {label:?});\n", m.k));
            }
            s.push_str("}\n");
            std::fs::write(src.join(format!("m_{}.rs", m.k)), s).map_err(|e| e.to_string())?;
        }
        Ok(())
    }

    /// Ok(errors per module) — empty map = build succeeded. Err = the build failed for a reason not
    /// attributable to a module (harness problem, reported as inconclusive).
    fn build(&self, check_only: bool) -> Result<BTreeMap<usize, Vec<CompileError>>, String> {
        let out = Command::new("cargo")
            .args([if check_only { "check" } else { "build" }, "--offline", "--message-format=json"])
            .current_dir(&self.gen)
            .env("RUSTUP_TOOLCHAIN", std::env::var("VERIF_TOOLCHAIN").unwrap_or_else(|_| "stable-x86_64-unknown-linux-gnu".into()))
            .env("CARGO_NET_OFFLINE", "true")
            .env("CARGO_TARGET_DIR", &self.target)
            .env_remove("RUSTFLAGS")
            .output()
            .map_err(|e| format!("spawn cargo: {e}"))?;
        let mut errs: BTreeMap<usize, Vec<CompileError>> = BTreeMap::new();
        let mut other: Vec<String> = Vec::new();
        for line in String::from_utf8_lossy(&out.stdout).lines() {
            let Ok(v) = serde_json::from_str::<Value>(line) else { continue };
            if v["reason"] != "compiler-message" {
                continue;
            }
            let m = &v["message"];
            if m["level"] != "error" {
                continue;
            }
            let msg = m["message"].as_str().unwrap_or("").to_string();
            if msg.starts_with("aborting due to") {
                continue;
            }
            let ce = CompileError {
                code: m["code"]["code"].as_str().unwrap_or("").to_string(),
                message: msg.clone(),
                rendered: m["rendered"].as_str().unwrap_or("").chars().take(1500).collect(),
            };
            match module_of(m) {
                Some(k) => errs.entry(k).or_default().push(ce),
                None => other.push(ce.rendered.clone()),
            }
        }
        if out.status.success() {
            return Ok(BTreeMap::new());
        }
        if errs.is_empty() {
            return Err(format!(
                "cargo build failed without a diagnostic attributable to a module: {} {}",
                other.join("\n").chars().take(1500).collect::<String>(),
                String::from_utf8_lossy(&out.stderr).chars().rev().take(1500).collect::<String>().chars().rev().collect::<String>()
            ));
        }
        Ok(errs)
    }

    fn run_probe(&self) -> Result<Vec<Value>, String> {
        let bin = self.target.join("debug").join("rsbind-gen");
        let out = Command::new(&bin).output().map_err(|e| format!("run {bin:?}: {e}"))?;
        if !out.status.success() {
            return Err(format!(
                "probe binary exited with {:?}: {}",
                out.status.code(),
                String::from_utf8_lossy(&out.stderr).chars().take(800).collect::<String>()
            ));
        }
        let mut v = Vec::new();
        for l in String::from_utf8_lossy(&out.stdout).lines() {
            v.push(serde_json::from_str::<Value>(l).map_err(|e| format!("probe line: {e}"))?);
        }
        Ok(v)
    }

    /// Build the crate with no modules so that candid + serde are compiled into the shared target dir.
    pub fn prebuild(&self) -> Result<f64, String> {
        let t0 = std::time::Instant::now();
        self.write_crate(&[])?;
        // both modes: `cargo check` (used to find failing modules quickly) keeps its own dependency artefacts
        for check_only in [true, false] {
            let errs = self.build(check_only)?;
            if !errs.is_empty() {
                return Err("prebuild produced module errors?".into());
            }
        }
        self.run_probe()?;
        Ok(t0.elapsed().as_secs_f64())
    }

    /// Compile the modules (dropping the ones that fail, so the rest is still judged), run the probe, and
    /// re-compile up to `max_confirm` failing modules alone.
    pub fn process(&self, mods: &[RsModule], max_confirm: usize) -> Result<RsBatchResult, String> {
        let t0 = std::time::Instant::now();
        let mut res = RsBatchResult::default();
        let mut active: Vec<&RsModule> = mods.iter().collect();
        let mut checked = false;
        loop {
            self.write_crate(&active)?;
            res.builds += 1;
            // `cargo check` until nothing fails, then one real build
            let errs = self.build(!checked)?;
            if errs.is_empty() {
                if checked {
                    break;
                }
                checked = true;
                continue;
            }
            checked = false;
            let before = active.len();
            active.retain(|m| !errs.contains_key(&m.k));
            for (k, e) in errs {
                res.failed.entry(k).or_default().extend(e);
            }
            if active.len() == before || res.builds > 12 {
                return Err("diagnostics name modules that are not in the crate".into());
            }
        }
        for v in self.run_probe()? {
            let k = v["prog"].as_u64().unwrap_or(u64::MAX) as usize;
            let item = v["item"].as_str().unwrap_or("").to_string();
            let r = if v["graph"].is_object() {
                graph_to_model(&v["graph"])
            } else {
                Err(v["error"].as_str().unwrap_or("?").to_string())
            };
            res.graphs.insert((k, item), r);
        }
        // confirm failures alone, distinct error classes first
        let mut seen_classes: BTreeSet<String> = BTreeSet::new();
        let mut order: Vec<usize> = Vec::new();
        let mut rest: Vec<usize> = Vec::new();
        for (k, es) in &res.failed {
            let c = es.first().map(|e| e.class()).unwrap_or_default();
            if seen_classes.insert(c) {
                order.push(*k);
            } else {
                rest.push(*k);
            }
        }
        order.extend(rest);
        for k in order.into_iter().take(max_confirm) {
            let Some(m) = mods.iter().find(|m| m.k == k) else { continue };
            self.write_crate(&[m])?;
            res.builds += 1;
            match self.build(true) {
                Ok(errs) if errs.is_empty() => res.not_reproduced.push(k),
                Ok(mut errs) => {
                    res.confirmed.insert(k, errs.remove(&k).unwrap_or_default());
                }
                Err(_) => res.not_reproduced.push(k),
            }
        }
        res.build_seconds = t0.elapsed().as_secs_f64();
        Ok(res)
    }

    pub fn cleanup(&self) {
        let _ = std::fs::remove_dir_all(&self.gen);
    }
}

pub fn rsbind_root() -> PathBuf {
    verif_root().join("rsbind")
}

pub fn path_exists(p: &Path) -> bool {
    p.exists()
}
