//! C05 — subtype and upgrade checks decide the spec relation (greatest fixed point), independent of
//! field/definition order, names, earlier successful queries on the same memo and failed probes.
use super::common::*;
use crate::conv::*;
use crate::corpus::registry as reg;
use crate::ctx::{catch, on_thread, Ctx};
use crate::gen::types::*;
use crate::gen::upgrade::Upgrader;
use crate::model::misc::label_hash;
use crate::model::subtype as r3;
use crate::model::*;
use crate::rng::{hash_str, Rng};
use candid::types::subtype::{equal, subtype_check_all, subtype_with_config, Gamma, OptReport};
use candid::types::{Type, TypeEnv};
use serde_json::json;

fn h(s: &str) -> u32 {
    label_hash(s)
}

/// Catalogue of definition bodies over two references (this side's A and B).
pub(crate) fn catalogue(a: &RType, b: &RType, full: bool) -> Vec<RType> {
    let mut c = vec![
        RType::opt(a.clone()),
        RType::vec(a.clone()),
        RType::vec(b.clone()),
        RType::record(vec![(h("a"), b.clone()), (h("z"), RType::Text)]),
        RType::record(vec![(h("a"), b.clone()), (h("z"), RType::Nat)]),
        RType::record(vec![(h("a"), RType::Nat), (h("b"), RType::opt(b.clone()))]),
        RType::variant(vec![(h("a"), RType::Null), (h("b"), b.clone())]),
        RType::record(vec![(h("p"), RType::opt(a.clone())), (h("q"), b.clone())]),
        RType::func(vec![a.clone()], vec![b.clone()], vec![]),
        RType::Nat,
    ];
    if full {
        c.extend(vec![
            RType::Int,
            RType::Text,
            RType::Reserved,
            RType::Empty,
            RType::opt(b.clone()),
            RType::opt(RType::Nat),
            RType::record(vec![(h("a"), a.clone())]),
            RType::record(vec![]),
            RType::record(vec![(h("a"), RType::Int), (h("b"), RType::opt(b.clone())), (h("c"), RType::Null)]),
            RType::variant(vec![(h("a"), RType::Null)]),
            RType::variant(vec![(h("a"), RType::Null), (h("b"), b.clone()), (h("c"), RType::Text)]),
            RType::func(vec![b.clone()], vec![a.clone()], vec![Mode::Query]),
            RType::func(vec![RType::opt(a.clone())], vec![], vec![]),
            RType::service(vec![("f".into(), RType::func(vec![a.clone()], vec![b.clone()], vec![]))]),
            RType::service(vec![
                ("f".into(), RType::func(vec![a.clone()], vec![b.clone()], vec![])),
                ("g".into(), RType::func(vec![], vec![], vec![Mode::Oneway])),
            ]),
        ]);
    }
    c
}

/// Queries asked in a four-definition environment: indices 0,1 = new A,B ; 2,3 = old A,B
fn queries() -> Vec<(RType, RType)> {
    let (na, nb, oa, ob) = (RType::Ref(0), RType::Ref(1), RType::Ref(2), RType::Ref(3));
    vec![
        (na.clone(), oa.clone()),
        (nb.clone(), ob.clone()),
        (na.clone(), ob.clone()),
        (oa.clone(), na.clone()),
        (
            RType::record(vec![(h("p"), RType::opt(na.clone())), (h("q"), nb.clone())]),
            RType::record(vec![(h("p"), RType::opt(oa.clone())), (h("q"), ob.clone())]),
        ),
        (RType::vec(na.clone()), RType::vec(oa.clone())),
        (
            RType::record(vec![(h("p"), RType::opt(RType::vec(na.clone()))), (h("q"), nb.clone())]),
            RType::record(vec![(h("p"), RType::opt(RType::vec(oa.clone()))), (h("q"), ob.clone())]),
        ),
        (
            RType::record(vec![(h("p"), RType::opt(RType::record(vec![(h("x"), na.clone())]))), (h("q"), nb.clone())]),
            RType::record(vec![(h("p"), RType::opt(RType::record(vec![(h("x"), oa.clone())]))), (h("q"), ob.clone())]),
        ),
        (
            RType::record(vec![(h("p"), RType::opt(RType::vec(nb.clone()))), (h("q"), na.clone())]),
            RType::record(vec![(h("p"), RType::opt(RType::vec(ob.clone()))), (h("q"), oa.clone())]),
        ),
        (
            RType::func(vec![oa.clone()], vec![nb.clone()], vec![]),
            RType::func(vec![na.clone()], vec![ob.clone()], vec![]),
        ),
        (
            RType::service(vec![("m".into(), RType::func(vec![], vec![RType::record(vec![(h("p"), RType::opt(na.clone())), (h("q"), nb.clone())])], vec![]))]),
            RType::service(vec![("m".into(), RType::func(vec![], vec![RType::record(vec![(h("p"), RType::opt(oa.clone())), (h("q"), ob.clone())])], vec![]))]),
        ),
    ]
}

/// With a small probability per function type, exchange `query` and `composite_query` (two annotations the rules keep
/// apart although both denote read-only calls): an annotation change the generic upgrade steps never make.
fn swap_query_kind(rng: &mut Rng, t: &RType) -> RType {
    match t {
        RType::Opt(u) => RType::opt(swap_query_kind(rng, u)),
        RType::Vec(u) => RType::vec(swap_query_kind(rng, u)),
        RType::Record(fs) => RType::Record(fs.iter().map(|(i, u)| (*i, swap_query_kind(rng, u))).collect()),
        RType::Variant(fs) => RType::Variant(fs.iter().map(|(i, u)| (*i, swap_query_kind(rng, u))).collect()),
        RType::Func { args, rets, modes } => RType::Func {
            args: args.iter().map(|u| swap_query_kind(rng, u)).collect(),
            rets: rets.iter().map(|u| swap_query_kind(rng, u)).collect(),
            modes: if rng.chance(1, 6) {
                match modes.as_slice() {
                    [Mode::Query] => vec![Mode::CompositeQuery],
                    [Mode::CompositeQuery] => vec![Mode::Query],
                    _ => modes.clone(),
                }
            } else {
                modes.clone()
            },
        },
        RType::Service(ms) => RType::Service(ms.iter().map(|(n, u)| (n.clone(), swap_query_kind(rng, u))).collect()),
        other => other.clone(),
    }
}
fn swap_query_kind_env(rng: &mut Rng, env: REnv, ts: Vec<RType>) -> (REnv, Vec<RType>) {
    if !rng.chance(1, 3) {
        return (env, ts);
    }
    (REnv(env.0.iter().map(|d| swap_query_kind(rng, d)).collect()), ts.iter().map(|t| swap_query_kind(rng, t)).collect())
}

fn candid_subtype(env: &TypeEnv, gamma: &mut Gamma, a: &Type, b: &Type) -> Result<bool, crate::ctx::PanicInfo> {
    catch(|| subtype_with_config(OptReport::Silence, gamma, env, a, b).is_ok())
}

fn is_vacuous(env: &REnv) -> bool {
    env.0.iter().any(|t| env.unfold(t).is_none())
}

fn check_query(ctx: &mut Ctx, env: &REnv, cenv: &TypeEnv, a: &RType, b: &RType, family: &str) -> Option<bool> {
    let want = r3::subtype(env, a, b);
    let (ca, cb) = (to_candid_type(a, None), to_candid_type(b, None));
    let mut g = Gamma::new();
    match candid_subtype(cenv, &mut g, &ca, &cb) {
        Err(p) => {
            ctx.violation(&format!("panic|subtype|{}", p.sig()), &p.message, json!({"env": env.to_string(), "t1": a.to_string(), "t2": b.to_string()}));
            None
        }
        Ok(got) => {
            if got != want {
                let dir = if got { "accepts-non-subtype" } else { "rejects-subtype" };
                ctx.violation(
                    &format!("{dir}|{family}|{}|{}", shape(env, a, 2), shape(env, b, 2)),
                    &format!("candid says {got}, the greatest fixed point says {want} for {a} <: {b}"),
                    json!({"env": env.to_string(), "t1": a.to_string(), "t2": b.to_string()}),
                );
            } else {
                ctx.count(if want { "agree:subtype-yes" } else { "agree:subtype-no" });
            }
            // the all-errors variant agrees (report empty exactly when compatible)
            let mut g2 = Gamma::new();
            if let Ok(errs) = catch(|| subtype_check_all(&mut g2, cenv, &ca, &cb)) {
                if errs.is_empty() != want {
                    ctx.violation(
                        &format!("report-disagrees|{family}|{}", if errs.is_empty() { "empty-for-non-subtype" } else { "errors-for-subtype" }),
                        &format!("subtype_check_all returned {} error(s) but the relation is {want} for {a} <: {b}", errs.len()),
                        json!({"env": env.to_string(), "t1": a.to_string(), "t2": b.to_string(), "errors": errs.iter().take(3).map(|e| e.to_string()).collect::<Vec<_>>()}),
                    );
                }
            }
            Some(got)
        }
    }
}

// ---- .did text from model types (own printer) --------------------------------------------------

fn quote(s: &str) -> String {
    let ident = !s.is_empty()
        && s.chars().next().map(|c| c.is_ascii_alphabetic() || c == '_').unwrap_or(false)
        && s.chars().all(|c| c.is_ascii_alphanumeric() || c == '_');
    const KW: &[&str] = &[
        "import", "service", "func", "type", "opt", "vec", "record", "variant", "blob", "principal", "nat", "nat8", "nat16", "nat32",
        "nat64", "int", "int8", "int16", "int32", "int64", "float32", "float64", "bool", "text", "null", "reserved", "empty", "oneway",
        "query", "composite_query", "true", "false",
    ];
    if ident && !KW.contains(&s) {
        return s.to_string();
    }
    let mut o = String::from("\"");
    for c in s.chars() {
        match c {
            '"' => o.push_str("\\\""),
            '\\' => o.push_str("\\\\"),
            c if (c as u32) < 0x20 || c as u32 == 0x7f => o.push_str(&format!("\\u{{{:x}}}", c as u32)),
            c => o.push(c),
        }
    }
    o.push('"');
    o
}

pub fn did_type(t: &RType, names: &[String], rng: &mut Rng) -> String {
    match t {
        RType::Ref(i) => names[*i].clone(),
        RType::Opt(x) => format!("opt {}", did_type(x, names, rng)),
        RType::Vec(x) => format!("vec {}", did_type(x, names, rng)),
        RType::Record(fs) | RType::Variant(fs) => {
            let mut parts: Vec<String> = fs.iter().map(|(i, x)| format!("{i} : {}", did_type(x, names, rng))).collect();
            rng.shuffle(&mut parts);
            format!("{} {{ {} }}", if matches!(t, RType::Record(_)) { "record" } else { "variant" }, parts.join("; "))
        }
        RType::Func { args, rets, modes } => {
            let a: Vec<String> = args.iter().map(|x| did_type(x, names, rng)).collect();
            let r: Vec<String> = rets.iter().map(|x| did_type(x, names, rng)).collect();
            let m: Vec<&str> = modes
                .iter()
                .map(|m| match m {
                    Mode::Query => " query",
                    Mode::Oneway => " oneway",
                    Mode::CompositeQuery => " composite_query",
                })
                .collect();
            format!("func ({}) -> ({}){}", a.join(", "), r.join(", "), m.concat())
        }
        RType::Service(ms) => format!("service {}", did_methods(ms, names, rng)),
        p => p.to_string(),
    }
}
fn did_methods(ms: &[(String, RType)], names: &[String], rng: &mut Rng) -> String {
    let mut parts: Vec<String> = ms
        .iter()
        .map(|(n, t)| {
            let body = did_type(t, names, rng);
            // a method is written `name : (args) -> (rets)` or `name : DefName`
            let body = body.strip_prefix("func ").map(|s| s.to_string()).unwrap_or(body);
            format!("{} : {}", quote(n), body)
        })
        .collect();
    rng.shuffle(&mut parts);
    format!("{{ {} }}", parts.join("; "))
}
/// A program text with the definitions in a random order under the given names.
pub fn did_prog(env: &REnv, names: &[String], actor: &RType, rng: &mut Rng) -> String {
    let mut defs: Vec<String> = env
        .0
        .iter()
        .enumerate()
        .map(|(i, t)| format!("type {} = {};", names[i], did_type(t, names, rng)))
        .collect();
    rng.shuffle(&mut defs);
    let svc = match actor {
        RType::Service(ms) => did_methods(ms, names, rng),
        RType::Ref(i) => names[*i].clone(),
        _ => "{}".into(),
    };
    format!("{}\nservice : {}\n", defs.join("\n"), svc)
}

fn gen_service(rng: &mut Rng, cfg: &TypeCfg, env: &REnv) -> RType {
    let n = 1 + rng.usize(3);
    let names = gen_method_names(rng, n);
    let mut ms = Vec::new();
    for name in names {
        // identifiers only: keep the text simple
        let na = rng.usize(3);
        let nr = rng.usize(3);
        let args = gen_types(rng, cfg, env, na);
        let rets = gen_types(rng, cfg, env, nr);
        ms.push((name, RType::func(args, rets, vec![])));
    }
    RType::service(ms)
}

pub fn run(ctx: &mut Ctx) {
    // candid prints opt-rule warnings to stderr from service_compatible: silence fd 2 for this worker
    #[cfg(not(miri))]
    unsafe {
        let devnull = libc::open(b"/dev/null\0".as_ptr() as *const libc::c_char, libc::O_WRONLY);
        if devnull >= 0 {
            libc::dup2(devnull, 2);
        }
    }
    let thorough = ctx.thorough();
    // ---- 1. exhaustive small scope -----------------------------------------------------------
    let probe = catalogue(&RType::Ref(0), &RType::Ref(1), thorough);
    let c = probe.len() as u64;
    let total = c * c * c * c;
    let qs = queries();
    let mut complete = false;
    ctx.cases("exhaustive-small-environments", if thorough { 0.45 } else { 0.4 }, |ctx, _rng| {
        let idx = ctx.case & ((1 << 40) - 1);
        if idx >= total {
            complete = true;
            ctx.stats.evaluations -= 1;
            ctx.stop_family = true;
            return;
        }
        let (i0, i1, i2, i3) = (idx % c, (idx / c) % c, (idx / c / c) % c, idx / c / c / c);
        let new = catalogue(&RType::Ref(0), &RType::Ref(1), thorough);
        let old = catalogue(&RType::Ref(2), &RType::Ref(3), thorough);
        let env = REnv(vec![new[i0 as usize].clone(), new[i1 as usize].clone(), old[i2 as usize].clone(), old[i3 as usize].clone()]);
        if is_vacuous(&env) {
            return;
        }
        let cenv = to_candid_env(&env, None);
        for (a, b) in &qs {
            check_query(ctx, &env, &cenv, a, b, "small-scope");
            ctx.stats.evaluations += 1;
        }
        ctx.nontrivial(idx);
        if idx % 997 == 0 {
            ctx.sample(|| json!({"env": env.to_string(), "queries": qs.iter().map(|(a, b)| format!("{a} <: {b}")).collect::<Vec<_>>()}));
        }
    });
    if complete {
        ctx.stats.exhaustive.push(format!(
            "all {total} environments (new A,B; old A,B) over a catalogue of {c} definition bodies x {} queries (this shard's residue class)",
            qs.len()
        ));
    }
    // ---- 2. random recursive environments, both directions, laws ---------------------------------
    let cfg = TypeCfg { max_defs: 6, max_depth: 3, ..TypeCfg::default() };
    ctx.cases("random-environments", 0.25, |ctx, rng| {
        let env = gen_env(rng, &cfg);
        let ts = gen_types(rng, &cfg, &env, 2);
        let mut up = Upgrader::new(&cfg);
        up.illegal_pct = *rng.pick(&[0, 10, 40]);
        let (env2, ts2) = up.up_env(rng, &env, &ts);
        let (env2, ts2) = swap_query_kind_env(rng, env2, ts2);
        let mut merged = env.clone();
        let off = merged.append(&env2);
        if is_vacuous(&merged) {
            return;
        }
        let cenv = to_candid_env(&merged, None);
        let mut answers = Vec::new();
        for (t, t2) in ts.iter().zip(ts2.iter()) {
            let t2s = t2.shift_refs(off);
            let fwd = check_query(ctx, &merged, &cenv, t, &t2s, "random");
            let bwd = check_query(ctx, &merged, &cenv, &t2s, t, "random");
            answers.push((t.clone(), t2s.clone(), fwd, bwd));
            // reflexivity
            let ct = to_candid_type(t, None);
            let mut g = Gamma::new();
            if let Ok(false) = candid_subtype(&cenv, &mut g, &ct, &ct) {
                ctx.violation("not-reflexive", &format!("{t} is not a subtype of itself"), json!({"env": merged.to_string()}));
            }
            // equal implies subtype both ways; equal agrees with structural equality
            let ct2 = to_candid_type(&t2s, None);
            let mut g = Gamma::new();
            if let Ok(eq) = catch(|| equal(&mut g, &cenv, &ct, &ct2).is_ok()) {
                let want = r3::requal(&merged, t, &t2s);
                if eq != want {
                    ctx.violation(
                        &format!("equal-disagrees|{}", if eq { "equal-for-different" } else { "unequal-for-same" }),
                        &format!("equal says {eq}, structural equality of the type graphs is {want}: {t} vs {t2s}"),
                        json!({"env": merged.to_string()}),
                    );
                }
                if eq && (fwd == Some(false) || bwd == Some(false)) {
                    ctx.violation("equal-but-not-subtype", &format!("{t} equal {t2s} but not subtype both ways"), json!({"env": merged.to_string()}));
                }
            }
            ctx.nontrivial(hash_str(&format!("{}|{}", shape(&merged, t, 4), shape(&merged, &t2s, 4))));
        }
        // transitivity on candid's own answers: t0 <: t1 (upgrade) and t1 <: u (second upgrade) => t0 <: u
        if let Some((t, t2s, Some(true), _)) = answers.first().cloned() {
            let mut up2 = Upgrader::new(&cfg);
            up2.illegal_pct = 0;
            let t3 = up2.up(rng, &t2s, merged.0.len(), true);
            let (c1, c3) = (to_candid_type(&t, None), to_candid_type(&t3, None));
            let c2 = to_candid_type(&t2s, None);
            let mut g = Gamma::new();
            let s23 = candid_subtype(&cenv, &mut g, &c2, &c3).unwrap_or(false);
            let mut g = Gamma::new();
            let s13 = candid_subtype(&cenv, &mut g, &c1, &c3).unwrap_or(true);
            if s23 && !s13 && !r3::subtype(&merged, &t, &t3) {
                // the rules themselves are not transitive here (a field dropped and re-added at type
                // null: only opt and reserved absorb every type); candid follows the rules
                ctx.count("observed:spec-relation-not-transitive");
            } else if s23 && !s13 {
                ctx.violation("not-transitive", &format!("{t} <: {t2s} and {t2s} <: {t3} but not {t} <: {t3}"), json!({"env": merged.to_string()}));
            }
            ctx.count("cover:transitivity-triples");
        }
        ctx.sample(|| json!({"env": merged.to_string(), "pairs": answers.iter().map(|(a, b, f, r)| format!("{a} <: {b} = {f:?}; reverse = {r:?}")).collect::<Vec<_>>()}));
    });
    // ---- 3. history independence: one memo shared by a sequence of queries -----------------------
    ctx.cases("shared-memo-histories", 0.1, |ctx, rng| {
        let env = gen_env(rng, &cfg);
        let mut up = Upgrader::new(&cfg);
        up.illegal_pct = 20;
        let (env2, _) = up.up_env(rng, &env, &[]);
        let (env2, _) = swap_query_kind_env(rng, env2, vec![]);
        let mut merged = env.clone();
        let off = merged.append(&env2);
        if is_vacuous(&merged) || env.0.is_empty() {
            return;
        }
        let cenv = to_candid_env(&merged, None);
        let n = env.0.len();
        let mut gamma = Gamma::new();
        let mut hist: Vec<String> = Vec::new();
        for _ in 0..(2 + rng.usize(8)) {
            // queries between corresponding and non-corresponding definitions, and wrapped in constructors
            let i = rng.usize(n);
            let j = if rng.chance(2, 3) { i } else { rng.usize(n) };
            let (mut a, mut b) = (RType::Ref(i), RType::Ref(off + j));
            if rng.bool() {
                std::mem::swap(&mut a, &mut b);
            }
            match rng.below(5) {
                0 => {
                    a = RType::opt(a);
                    b = RType::opt(b);
                }
                1 => {
                    a = RType::vec(a);
                    b = RType::vec(b);
                }
                2 => {
                    let k = rng.usize(n);
                    a = RType::record(vec![(h("p"), RType::opt(a)), (h("q"), RType::Ref(k))]);
                    b = RType::record(vec![(h("p"), RType::opt(b)), (h("q"), RType::Ref(off + k))]);
                }
                _ => {}
            }
            let want = r3::subtype(&merged, &a, &b);
            let (ca, cb) = (to_candid_type(&a, None), to_candid_type(&b, None));
            let got = match candid_subtype(&cenv, &mut gamma, &ca, &cb) {
                Ok(g) => g,
                Err(p) => {
                    ctx.violation(&format!("panic|subtype-shared-memo|{}", p.sig()), &p.message, json!({"env": merged.to_string()}));
                    return;
                }
            };
            let mut fresh = Gamma::new();
            let alone = candid_subtype(&cenv, &mut fresh, &ca, &cb).unwrap_or(want);
            if got != alone || got != want {
                ctx.violation(
                    &format!("history-dependent|{}", if got { "accepts-after-history" } else { "rejects-after-history" }),
                    &format!("{a} <: {b}: with the shared memo {got}, with a fresh memo {alone}, greatest fixed point {want}; earlier queries: {hist:?}"),
                    json!({"env": merged.to_string()}),
                );
                return;
            }
            hist.push(format!("{a} <: {b} = {got}"));
            if !got {
                // the property speaks about earlier *successful* checks: start over after a failed one
                gamma = Gamma::new();
                hist.push("(memo reset)".into());
            }
            ctx.count("cover:shared-memo-queries");
        }
        ctx.nontrivial(hash_str(&hist.join("|")));
    });
    // ---- 4. through .did text: order and names; upgrade check entry points -----------------------
    // (5) types as the derive macro builds them (recursion tied with Knot nodes instead of names), in whatever order the
    // thread happened to derive them: the checker must give the relation of their Candid meaning
    let n_types = reg::len();
    ctx.cases("rust-derived-types", 0.1, |ctx, rng| {
        let i = rng.usize(n_types);
        // partner: any type, or the same container over a related leaf
        let j = if rng.chance(1, 4) { i } else { rng.usize(n_types) };
        let hist: Vec<usize> = (0..rng.usize(4)).map(|_| if rng.bool() { rng.usize(n_types) } else if rng.bool() { i } else { j }).collect();
        let clear_first = rng.bool();
        let (ei, ti) = reg::with(i, |t| t.rtype());
        let (ej, tj) = reg::with(j, |t| t.rtype());
        let want_sub = r3::subtype2(&ei, &ti, &ej, &tj);
        let want_eq = r3::requal2(&ei, &ti, &ej, &tj);
        let hist2 = hist.clone();
        let got = on_thread(16 << 20, move || {
            if clear_first {
                candid::types::internal::env_clear();
            }
            for k in &hist2 {
                let _ = reg::with(*k, |t| t.ty());
            }
            let (a, b) = (reg::with(i, |t| t.ty()), reg::with(j, |t| t.ty()));
            let env = TypeEnv::new();
            let sub = subtype_with_config(OptReport::Silence, &mut Gamma::new(), &env, &a, &b).is_ok();
            let eq = equal(&mut Gamma::new(), &env, &a, &b).is_ok();
            let all = subtype_check_all(&mut Gamma::new(), &env, &a, &b).is_empty();
            (sub, eq, all)
        });
        let (ni, nj) = (reg::with(i, |t| t.name()), reg::with(j, |t| t.name()));
        let input = || json!({"t1": ni, "t2": nj, "derived_before": hist.iter().map(|k| reg::with(*k, |t| t.name())).collect::<Vec<_>>(), "model_t1": format!("[{ei}] {ti}"), "model_t2": format!("[{ej}] {tj}")});
        match got {
            Err(p) => ctx.violation(&format!("panic|rust-derived-types|{}", p.sig()), &p.message, input()),
            Ok((sub, eq, all)) => {
                if sub != want_sub {
                    ctx.violation(
                        &format!("rust-derived-types|{}|{}", if sub { "accepts-non-subtype" } else { "rejects-subtype" }, ni.split('<').next().unwrap_or("")),
                        &format!("subtype({ni}::ty(), {nj}::ty()) = {sub}, the relation on their Candid types says {want_sub}"),
                        input(),
                    );
                } else if all != want_sub {
                    ctx.violation(
                        &format!("rust-derived-types|report|{}", if all { "empty-for-non-subtype" } else { "non-empty-for-subtype" }),
                        &format!("subtype_check_all({ni}::ty(), {nj}::ty()) empty = {all}, relation = {want_sub}"),
                        input(),
                    );
                } else if eq != want_eq {
                    ctx.violation(
                        &format!("rust-derived-types|equal|{}", if eq { "accepts-different" } else { "rejects-equal" }),
                        &format!("equal({ni}::ty(), {nj}::ty()) = {eq}, structural equality of their Candid types = {want_eq}"),
                        input(),
                    );
                } else {
                    ctx.count(if want_sub { "agree:rust-derived:subtype-yes" } else { "agree:rust-derived:subtype-no" });
                    if i != j && want_sub {
                        ctx.count("cover:rust-derived:distinct-related-pair");
                    }
                }
                ctx.nontrivial(hash_str(&format!("rd|{ni}|{nj}")));
            }
        }
    });
    ctx.cases("did-text-upgrade-checks", 0.1, |ctx, rng| {
        use candid_parser::utils::{service_compatibility_report, service_compatible, service_equal, CandidSource};
        let cfg = TypeCfg { max_defs: 4, max_depth: 3, ..TypeCfg::default() };
        let env = gen_env(rng, &cfg);
        let old_actor = gen_service(rng, &cfg, &env);
        let mut up = Upgrader::new(&cfg);
        up.illegal_pct = *rng.pick(&[0, 15, 40]);
        // new side: for an upgrade the NEW service must be a subtype of the OLD one: derive new by
        // "downgrading" is awkward, so derive old' from old by supertype steps and swap roles
        let (env_b, ts_b) = up.up_env(rng, &env, std::slice::from_ref(&old_actor));
        let (env_b, ts_b) = swap_query_kind_env(rng, env_b, ts_b);
        let actor_b = match &ts_b[0] {
            RType::Service(_) => ts_b[0].clone(),
            _ => return,
        };
        if is_vacuous(&env) || is_vacuous(&env_b) {
            return;
        }
        // names: same definition names on both sides (forces the renaming merge) or different ones
        let names_a: Vec<String> = (0..env.0.len()).map(|i| format!("T{i}")).collect();
        let names_b: Vec<String> = if rng.bool() {
            names_a.clone()
        } else {
            (0..env_b.0.len()).map(|i| format!("U{}", env_b.0.len() - i)).collect()
        };
        let text_a = did_prog(&env, &names_a, &old_actor, rng);
        let text_b = did_prog(&env_b, &names_b, &actor_b, rng);
        // this monitor is about the relation, not the front end: programs the parser/checker rejects
        // (field id 2^32-1 followed by another field: C13; recursive function types reached through a
        // method reference: C14) are excluded here and counted
        let max_id = |e: &REnv, a: &RType| format!("{e} {a}").contains("4294967295");
        if max_id(&env, &old_actor) || max_id(&env_b, &actor_b) {
            ctx.count("excluded:field-id-u32-max(C13)");
            return;
        }
        for t in [&text_a, &text_b] {
            match catch(|| CandidSource::Text(t).load().map(|_| ())) {
                Ok(Ok(())) => {}
                Ok(Err(e)) => {
                    let s = e.to_string();
                    if s.contains("Recursion limit") {
                        ctx.count("excluded:checker-rejects-recursive-method-reference(C14)");
                    } else {
                        ctx.violation("harness|did-text-rejected", &s, json!({"text": t}));
                    }
                    return;
                }
                Err(p) => {
                    ctx.violation(&format!("panic|load|{}", p.sig()), &p.message, json!({"text": t}));
                    return;
                }
            }
        }
        // a is the subtype candidate ("new"), b the supertype ("old")
        let want = r3::subtype2(&env, &old_actor, &env_b, &actor_b);
        let input = || json!({"new": text_a, "old": text_b});
        match catch(|| service_compatible(CandidSource::Text(&text_a), CandidSource::Text(&text_b))) {
            Err(p) => ctx.violation(&format!("panic|service_compatible|{}", p.sig()), &p.message, input()),
            Ok(r) => {
                if let Err(e) = &r {
                    let s = e.to_string();
                    if s.contains("parser error") || s.contains("Unbound") {
                        ctx.violation("harness|did-text-does-not-parse", &s, input());
                        return;
                    }
                }
                if r.is_ok() != want {
                    ctx.violation(
                        &format!("service_compatible|{}", if r.is_ok() { "accepts-incompatible" } else { "rejects-compatible" }),
                        &format!("service_compatible says {}, the relation on the two services is {want}", r.is_ok()),
                        input(),
                    );
                } else {
                    ctx.count(if want { "agree:compatible" } else { "agree:incompatible" });
                }
            }
        }
        match catch(|| service_compatibility_report(CandidSource::Text(&text_a), CandidSource::Text(&text_b))) {
            Err(p) => ctx.violation(&format!("panic|service_compatibility_report|{}", p.sig()), &p.message, input()),
            Ok(Ok(errs)) => {
                if errs.is_empty() != want {
                    ctx.violation(
                        &format!("report|{}", if errs.is_empty() { "empty-for-incompatible" } else { "errors-for-compatible" }),
                        &format!("{} incompatibilities reported, relation is {want}: {:?}", errs.len(), errs.iter().take(3).map(|e| e.to_string()).collect::<Vec<_>>()),
                        input(),
                    );
                }
            }
            Ok(Err(e)) => ctx.violation("report|error", &e.to_string(), input()),
        }
        // equality: a program against a re-printed permutation of itself, and against the other side
        let names_c: Vec<String> = (0..env.0.len()).map(|i| format!("Z{}", i * 7 + 1)).collect();
        let text_c = did_prog(&env, &names_c, &old_actor, rng);
        if let Ok(r) = catch(|| service_equal(CandidSource::Text(&text_a), CandidSource::Text(&text_c))) {
            if r.is_err() {
                ctx.violation("service_equal|rejects-renamed-permutation", &format!("{:?}", r.err().map(|e| e.to_string())), json!({"left": text_a, "right": text_c}));
            }
        }
        if let Ok(r) = catch(|| service_equal(CandidSource::Text(&text_a), CandidSource::Text(&text_b))) {
            let want_eq = r3::requal2(&env, &old_actor, &env_b, &actor_b);
            if r.is_ok() != want_eq {
                ctx.violation(
                    &format!("service_equal|{}", if r.is_ok() { "accepts-different" } else { "rejects-equal" }),
                    &format!("service_equal says {}, structural equality is {want_eq}", r.is_ok()),
                    input(),
                );
            }
        }
        ctx.nontrivial(hash_str(&format!("{}|{}", shape(&env, &old_actor, 5), shape(&env_b, &actor_b, 5))));
        ctx.sample(input);
    });
}
