//! One monitor per property. Each exposes `pub fn run(ctx: &mut Ctx)`.
use crate::ctx::Ctx;

pub mod selftest;

pub fn dispatch(prop: &str, ctx: &mut Ctx) -> bool {
    match prop {
        "selftest" => selftest::run(ctx),
        _ => return false,
    }
    true
}
