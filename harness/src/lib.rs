pub use vh_core::{alloc, conv, ctx, gen, model, rng};
pub use vh_corpus as corpus;
pub mod mon;
pub mod prog;
