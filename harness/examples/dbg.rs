use candid::{CandidType, Deserialize, DecoderConfig};
#[derive(CandidType, Deserialize, Debug, Clone, PartialEq)]
pub struct Tree { pub v: u8, pub kids: Vec<Tree> }
fn main() {
    let hexs = "4449444c026c02767badb1a7b804016d00020000a802ea02a3020c016c016e00850161009d01c20056012b01f802a900cb01090168005102dd02c90071005300";
    let bytes: Vec<u8> = (0..hexs.len()/2).map(|i| u8::from_str_radix(&hexs[2*i..2*i+2],16).unwrap()).collect();
    for full in [true,false] {
        let mut c = DecoderConfig::new(); c.set_decoding_quota(100); c.set_full_error_message(full);
        let r = candid::decode_one_with_config::<Box<Tree>>(&bytes, &c);
        match r { Ok(v) => println!("ok {v:?}"), Err(e) => { let s=format!("{e:?}"); println!("full={full} err len {} : {}", s.len(), &s[..s.len().min(1500)]); } }
    }
}
