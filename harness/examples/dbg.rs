fn main() {
    for s in ["(\"\\é\")", "(\"\\\u{1F600}x\")", "(\"a\\\n\")", "(\"\\q\")", "(\"\\n\\é\")", "(\"ok\\\\\")"] {
        let r = candid_parser::parse_idl_args(s);
        println!("{s:?} -> {:?}", r.map(|a| a.to_string()).map_err(|e| e.to_string()));
    }
}
