//! Derived and reference types of the corpus. The expected Candid meaning is written next to each
//! type by hand (labels as strings hashed with the model's R5), not taken from candid's derive.
use crate::{Corpus, TB};
use vh_core::gen::values::{gen_principal, gen_text};
use vh_core::model::misc::label_hash;
use vh_core::model::*;
use vh_core::rng::Rng;
use candid::types::reference::{Func, Service};
use candid::{CandidType, Deserialize, Int, Nat, Principal};
use std::collections::BTreeMap;
use std::rc::Rc;

/// record-like struct: `Name { field: Ty => "label", … }`
macro_rules! corpus_struct {
    ($name:ident $(<$g:ident>)? , $cname:expr, rec = $rec:expr, { $($field:ident : $fty:ty => $label:expr),* $(,)? }) => {
        impl $(<$g: Corpus>)? Corpus for $name $(<$g>)? {
            fn cname() -> String { $cname }
            fn gen(rng: &mut Rng, fuel: &mut i64) -> Self {
                *fuel -= 1;
                $name { $($field: <$fty as Corpus>::gen(rng, fuel)),* }
            }
            fn model(&self) -> RValue {
                RValue::record(vec![$((label_hash($label), self.$field.model())),*])
            }
            fn body(tb: &mut TB) -> RType {
                RType::record(vec![$((label_hash($label), <$fty as Corpus>::rtype(tb))),*])
            }
            fn rtype(tb: &mut TB) -> RType {
                if $rec { tb.rec::<Self>() } else { Self::body(tb) }
            }
            fn same(&self, o: &Self) -> bool {
                true $(&& self.$field.same(&o.$field))*
            }
            fn kind() -> &'static str { "struct" }
        }
    };
}

#[derive(CandidType, Deserialize, Debug, Clone)]
pub struct Point {
    pub x: i32,
    pub y: i32,
}
corpus_struct!(Point, "Point".into(), rec = false, { x: i32 => "x", y: i32 => "y" });

#[derive(CandidType, Deserialize, Debug, Clone)]
pub struct Renamed {
    #[serde(rename = "a b")]
    pub f1: u8,
    #[serde(rename = "type")]
    pub f2: String,
    pub r#fn: bool,
    #[serde(rename = "名前")]
    pub f4: Option<Nat>,
    pub zzz: Int,
}
corpus_struct!(Renamed, "Renamed".into(), rec = false, {
    f1: u8 => "a b", f2: String => "type", r#fn: bool => "fn", f4: Option<Nat> => "名前", zzz: Int => "zzz"
});

#[derive(CandidType, Deserialize, Debug, Clone)]
pub struct TupleS(pub u8, pub String, pub Option<Nat>);
impl Corpus for TupleS {
    fn cname() -> String {
        "TupleS".into()
    }
    fn gen(rng: &mut Rng, fuel: &mut i64) -> Self {
        TupleS(u8::gen(rng, fuel), String::gen(rng, fuel), Option::<Nat>::gen(rng, fuel))
    }
    fn model(&self) -> RValue {
        RValue::Record(vec![(0, self.0.model()), (1, self.1.model()), (2, self.2.model())])
    }
    fn body(_tb: &mut TB) -> RType {
        RType::tuple(vec![RType::Nat8, RType::Text, RType::opt(RType::Nat)])
    }
    fn same(&self, o: &Self) -> bool {
        self.0 == o.0 && self.1 == o.1 && self.2 == o.2
    }
    fn kind() -> &'static str {
        "tuple-struct"
    }
}

#[derive(CandidType, Deserialize, Debug, Clone)]
pub struct Newtype(pub Vec<Int>);
impl Corpus for Newtype {
    fn cname() -> String {
        "Newtype".into()
    }
    fn gen(rng: &mut Rng, fuel: &mut i64) -> Self {
        Newtype(Vec::<Int>::gen(rng, fuel))
    }
    fn model(&self) -> RValue {
        self.0.model()
    }
    fn body(_tb: &mut TB) -> RType {
        RType::vec(RType::Int)
    }
    fn same(&self, o: &Self) -> bool {
        self.0 == o.0
    }
    fn kind() -> &'static str {
        "newtype"
    }
}

/// derived newtypes over fixed-width primitives: transparent on the wire, so `Vec<NtX>` is `vec natN` and
/// takes the decoder's primitive-vector path with a derived (non-primitive) element visitor
macro_rules! newtype_prim {
    ($name:ident, $inner:ty) => {
        #[derive(CandidType, Deserialize, Debug, Clone)]
        pub struct $name(pub $inner);
        impl Corpus for $name {
            fn cname() -> String {
                stringify!($name).into()
            }
            fn gen(rng: &mut Rng, fuel: &mut i64) -> Self {
                $name(<$inner>::gen(rng, fuel))
            }
            fn model(&self) -> RValue {
                self.0.model()
            }
            fn body(tb: &mut TB) -> RType {
                <$inner>::body(tb)
            }
            fn same(&self, o: &Self) -> bool {
                self.0.same(&o.0)
            }
            fn kind() -> &'static str {
                "newtype"
            }
        }
    };
}
newtype_prim!(NtBool, bool);
newtype_prim!(NtU8, u8);
newtype_prim!(NtI16, i16);
newtype_prim!(NtU32, u32);
newtype_prim!(NtU64, u64);
newtype_prim!(NtF64, f64);
newtype_prim!(NtNat, Nat);
newtype_prim!(NtText, String);

#[derive(CandidType, Deserialize, Debug, Clone, PartialEq)]
pub struct UnitS;
impl Corpus for UnitS {
    fn cname() -> String {
        "UnitS".into()
    }
    fn gen(_rng: &mut Rng, _fuel: &mut i64) -> Self {
        UnitS
    }
    fn model(&self) -> RValue {
        RValue::Null
    }
    fn body(_tb: &mut TB) -> RType {
        RType::Null
    }
    fn same(&self, _o: &Self) -> bool {
        true
    }
}

#[derive(CandidType, Deserialize, Debug, Clone, PartialEq, Eq, PartialOrd, Ord, Hash)]
pub enum Color {
    Red,
    Green,
    Blue,
}
impl Corpus for Color {
    fn cname() -> String {
        "Color".into()
    }
    fn gen(rng: &mut Rng, _fuel: &mut i64) -> Self {
        match rng.below(3) {
            0 => Color::Red,
            1 => Color::Green,
            _ => Color::Blue,
        }
    }
    fn model(&self) -> RValue {
        let n = match self {
            Color::Red => "Red",
            Color::Green => "Green",
            Color::Blue => "Blue",
        };
        RValue::Variant(label_hash(n), Box::new(RValue::Null))
    }
    fn body(_tb: &mut TB) -> RType {
        RType::variant(vec![
            (label_hash("Red"), RType::Null),
            (label_hash("Green"), RType::Null),
            (label_hash("Blue"), RType::Null),
        ])
    }
    fn same(&self, o: &Self) -> bool {
        self == o
    }
    fn kind() -> &'static str {
        "enum"
    }
}

#[derive(CandidType, Deserialize, Debug, Clone)]
pub enum Shape {
    Circle(f64),
    Rect {
        w: u32,
        h: u32,
    },
    Pair(u8, u8),
    #[serde(rename = "未知")]
    Unknown,
    r#type,
    #[serde(rename = "with space")]
    Spaced(Option<String>),
}
impl Corpus for Shape {
    fn cname() -> String {
        "Shape".into()
    }
    fn gen(rng: &mut Rng, fuel: &mut i64) -> Self {
        *fuel -= 1;
        match rng.below(6) {
            0 => Shape::Circle(f64::gen(rng, fuel)),
            1 => Shape::Rect {
                w: u32::gen(rng, fuel),
                h: u32::gen(rng, fuel),
            },
            2 => Shape::Pair(u8::gen(rng, fuel), u8::gen(rng, fuel)),
            3 => Shape::Unknown,
            4 => Shape::r#type,
            _ => Shape::Spaced(Option::<String>::gen(rng, fuel)),
        }
    }
    fn model(&self) -> RValue {
        let (n, v) = match self {
            Shape::Circle(f) => ("Circle", f.model()),
            Shape::Rect { w, h } => (
                "Rect",
                RValue::record(vec![(label_hash("w"), w.model()), (label_hash("h"), h.model())]),
            ),
            Shape::Pair(a, b) => ("Pair", RValue::Record(vec![(0, a.model()), (1, b.model())])),
            Shape::Unknown => ("未知", RValue::Null),
            Shape::r#type => ("type", RValue::Null),
            Shape::Spaced(s) => ("with space", s.model()),
        };
        RValue::Variant(label_hash(n), Box::new(v))
    }
    fn body(_tb: &mut TB) -> RType {
        RType::variant(vec![
            (label_hash("Circle"), RType::Float64),
            (
                label_hash("Rect"),
                RType::record(vec![(label_hash("w"), RType::Nat32), (label_hash("h"), RType::Nat32)]),
            ),
            (label_hash("Pair"), RType::tuple(vec![RType::Nat8, RType::Nat8])),
            (label_hash("未知"), RType::Null),
            (label_hash("type"), RType::Null),
            (label_hash("with space"), RType::opt(RType::Text)),
        ])
    }
    fn same(&self, o: &Self) -> bool {
        match (self, o) {
            (Shape::Circle(a), Shape::Circle(b)) => a.to_bits() == b.to_bits(),
            (Shape::Rect { w, h }, Shape::Rect { w: w2, h: h2 }) => w == w2 && h == h2,
            (Shape::Pair(a, b), Shape::Pair(c, d)) => a == c && b == d,
            (Shape::Unknown, Shape::Unknown) => true,
            (Shape::r#type, Shape::r#type) => true,
            (Shape::Spaced(a), Shape::Spaced(b)) => a == b,
            _ => false,
        }
    }
    fn kind() -> &'static str {
        "enum"
    }
}

#[derive(CandidType, Deserialize, Debug, Clone)]
pub struct Generic<T> {
    pub inner: T,
    pub list: Vec<T>,
}
impl<T: Corpus> Corpus for Generic<T> {
    fn cname() -> String {
        format!("Generic<{}>", T::cname())
    }
    fn gen(rng: &mut Rng, fuel: &mut i64) -> Self {
        *fuel -= 1;
        Generic {
            inner: T::gen(rng, fuel),
            list: Vec::<T>::gen(rng, fuel),
        }
    }
    fn model(&self) -> RValue {
        RValue::record(vec![(label_hash("inner"), self.inner.model()), (label_hash("list"), self.list.model())])
    }
    fn body(tb: &mut TB) -> RType {
        let t = T::rtype(tb);
        RType::record(vec![(label_hash("inner"), t.clone()), (label_hash("list"), RType::vec(t))])
    }
    fn same(&self, o: &Self) -> bool {
        self.inner.same(&o.inner) && self.list.same(&o.list)
    }
    fn kind() -> &'static str {
        "generic"
    }
}

#[derive(CandidType, Deserialize, Debug, Clone, PartialEq)]
pub enum List {
    Nil,
    Cons(Int, Box<List>),
}
impl Corpus for List {
    fn cname() -> String {
        "List".into()
    }
    fn gen(rng: &mut Rng, fuel: &mut i64) -> Self {
        *fuel -= 1;
        if *fuel <= 0 || rng.chance(1, 4) {
            List::Nil
        } else {
            List::Cons(Int::gen(rng, fuel), Box::new(List::gen(rng, fuel)))
        }
    }
    fn model(&self) -> RValue {
        match self {
            List::Nil => RValue::Variant(label_hash("Nil"), Box::new(RValue::Null)),
            List::Cons(i, l) => RValue::Variant(
                label_hash("Cons"),
                Box::new(RValue::Record(vec![(0, i.model()), (1, l.model())])),
            ),
        }
    }
    fn body(tb: &mut TB) -> RType {
        let me = tb.rec::<Self>();
        RType::variant(vec![
            (label_hash("Nil"), RType::Null),
            (label_hash("Cons"), RType::tuple(vec![RType::Int, me])),
        ])
    }
    fn rtype(tb: &mut TB) -> RType {
        tb.rec::<Self>()
    }
    fn same(&self, o: &Self) -> bool {
        self == o
    }
    fn kind() -> &'static str {
        "recursive"
    }
}

#[derive(CandidType, Deserialize, Debug, Clone, PartialEq)]
pub struct Tree {
    pub v: u8,
    pub kids: Vec<Tree>,
}
impl Corpus for Tree {
    fn cname() -> String {
        "Tree".into()
    }
    fn gen(rng: &mut Rng, fuel: &mut i64) -> Self {
        *fuel -= 1;
        let n = if *fuel <= 0 { 0 } else { rng.usize(3) };
        Tree {
            v: rng.next() as u8,
            kids: (0..n).map(|_| Tree::gen(rng, fuel)).collect(),
        }
    }
    fn model(&self) -> RValue {
        RValue::record(vec![
            (label_hash("v"), self.v.model()),
            (label_hash("kids"), RValue::Vec(self.kids.iter().map(|k| k.model()).collect())),
        ])
    }
    fn body(tb: &mut TB) -> RType {
        let me = tb.rec::<Self>();
        RType::record(vec![(label_hash("v"), RType::Nat8), (label_hash("kids"), RType::vec(me))])
    }
    fn rtype(tb: &mut TB) -> RType {
        tb.rec::<Self>()
    }
    fn same(&self, o: &Self) -> bool {
        self == o
    }
    fn kind() -> &'static str {
        "recursive"
    }
}

// mutually recursive pair
#[derive(CandidType, Deserialize, Debug, Clone, PartialEq)]
pub struct MutA {
    pub b: Option<Box<MutB>>,
    pub tag: bool,
}
#[derive(CandidType, Deserialize, Debug, Clone, PartialEq)]
pub struct MutB {
    pub a: Vec<MutA>,
    pub n: Nat,
}
impl Corpus for MutA {
    fn cname() -> String {
        "MutA".into()
    }
    fn gen(rng: &mut Rng, fuel: &mut i64) -> Self {
        *fuel -= 1;
        MutA {
            b: if *fuel <= 0 || rng.chance(1, 3) {
                None
            } else {
                Some(Box::new(MutB::gen(rng, fuel)))
            },
            tag: rng.bool(),
        }
    }
    fn model(&self) -> RValue {
        RValue::record(vec![
            (
                label_hash("b"),
                match &self.b {
                    None => RValue::Null,
                    Some(b) => RValue::opt(b.model()),
                },
            ),
            (label_hash("tag"), RValue::Bool(self.tag)),
        ])
    }
    fn body(tb: &mut TB) -> RType {
        let b = tb.rec::<MutB>();
        RType::record(vec![(label_hash("b"), RType::opt(b)), (label_hash("tag"), RType::Bool)])
    }
    fn rtype(tb: &mut TB) -> RType {
        tb.rec::<Self>()
    }
    fn same(&self, o: &Self) -> bool {
        self == o
    }
    fn kind() -> &'static str {
        "recursive"
    }
}
impl Corpus for MutB {
    fn cname() -> String {
        "MutB".into()
    }
    fn gen(rng: &mut Rng, fuel: &mut i64) -> Self {
        *fuel -= 1;
        let n = if *fuel <= 0 { 0 } else { rng.usize(3) };
        MutB {
            a: (0..n).map(|_| MutA::gen(rng, fuel)).collect(),
            n: Nat::gen(rng, fuel),
        }
    }
    fn model(&self) -> RValue {
        RValue::record(vec![
            (label_hash("a"), RValue::Vec(self.a.iter().map(|x| x.model()).collect())),
            (label_hash("n"), self.n.model()),
        ])
    }
    fn body(tb: &mut TB) -> RType {
        let a = tb.rec::<MutA>();
        RType::record(vec![(label_hash("a"), RType::vec(a)), (label_hash("n"), RType::Nat)])
    }
    fn rtype(tb: &mut TB) -> RType {
        tb.rec::<Self>()
    }
    fn same(&self, o: &Self) -> bool {
        self == o
    }
    fn kind() -> &'static str {
        "recursive"
    }
}

#[derive(CandidType, Deserialize, Debug, Clone, PartialEq)]
pub struct WithBytes {
    #[serde(with = "serde_bytes")]
    pub data: Vec<u8>,
    pub tag: u8,
    #[serde(with = "candid::rc")]
    pub shared: Rc<String>,
}
impl Corpus for WithBytes {
    fn cname() -> String {
        "WithBytes".into()
    }
    fn gen(rng: &mut Rng, fuel: &mut i64) -> Self {
        *fuel -= 1;
        let n = if *fuel <= 0 { 0 } else { rng.usize(40) };
        WithBytes {
            data: rng.bytes(n),
            tag: rng.next() as u8,
            shared: Rc::new(gen_text(rng)),
        }
    }
    fn model(&self) -> RValue {
        RValue::record(vec![
            (label_hash("data"), RValue::blob(&self.data)),
            (label_hash("tag"), RValue::Nat8(self.tag)),
            (label_hash("shared"), RValue::Text((*self.shared).clone())),
        ])
    }
    fn body(_tb: &mut TB) -> RType {
        RType::record(vec![
            (label_hash("data"), RType::vec(RType::Nat8)),
            (label_hash("tag"), RType::Nat8),
            (label_hash("shared"), RType::Text),
        ])
    }
    fn same(&self, o: &Self) -> bool {
        self == o
    }
    fn kind() -> &'static str {
        "struct"
    }
}

candid::define_function!(pub MyFunc : (u8, String) -> (Nat) query);
candid::define_service!(pub MyServ : { "f": MyFunc::ty(); "g": candid::func!(() -> ()) });

impl Corpus for MyFunc {
    fn cname() -> String {
        "MyFunc".into()
    }
    fn gen(rng: &mut Rng, fuel: &mut i64) -> Self {
        *fuel -= 1;
        MyFunc(Func {
            principal: Principal::try_from_slice(&gen_principal(rng)).unwrap(),
            method: gen_text(rng),
        })
    }
    fn model(&self) -> RValue {
        RValue::Func(self.0.principal.as_slice().to_vec(), self.0.method.clone())
    }
    fn body(_tb: &mut TB) -> RType {
        RType::func(vec![RType::Nat8, RType::Text], vec![RType::Nat], vec![Mode::Query])
    }
    fn same(&self, o: &Self) -> bool {
        self == o
    }
    fn kind() -> &'static str {
        "reference"
    }
}
impl Corpus for MyServ {
    fn cname() -> String {
        "MyServ".into()
    }
    fn gen(rng: &mut Rng, fuel: &mut i64) -> Self {
        *fuel -= 1;
        MyServ(Service {
            principal: Principal::try_from_slice(&gen_principal(rng)).unwrap(),
        })
    }
    fn model(&self) -> RValue {
        RValue::Service(self.0.principal.as_slice().to_vec())
    }
    fn body(_tb: &mut TB) -> RType {
        RType::service(vec![
            (
                "f".into(),
                RType::func(vec![RType::Nat8, RType::Text], vec![RType::Nat], vec![Mode::Query]),
            ),
            ("g".into(), RType::func(vec![], vec![], vec![])),
        ])
    }
    fn same(&self, o: &Self) -> bool {
        self == o
    }
    fn kind() -> &'static str {
        "reference"
    }
}

// a service whose methods sort differently by name (what the spec asks for) and by the hash of the name (what records
// use): "Z" < "ab" < "b" < "query it" by bytes, but hash("Z") = 90 < hash("b") = 98 < hash("ab") < hash("query it")
candid::define_service!(pub MyServ2 : {
    "b": candid::func!((Nat) -> (Int) query);
    "ab": candid::func!(() -> ());
    "query it": candid::func!((Vec<u8>) -> () oneway);
    "Z": MyFunc::ty()
});
impl Corpus for MyServ2 {
    fn cname() -> String {
        "MyServ2".into()
    }
    fn gen(rng: &mut Rng, fuel: &mut i64) -> Self {
        *fuel -= 1;
        MyServ2(Service {
            principal: Principal::try_from_slice(&gen_principal(rng)).unwrap(),
        })
    }
    fn model(&self) -> RValue {
        RValue::Service(self.0.principal.as_slice().to_vec())
    }
    fn body(_tb: &mut TB) -> RType {
        RType::service(vec![
            ("Z".into(), RType::func(vec![RType::Nat8, RType::Text], vec![RType::Nat], vec![Mode::Query])),
            ("ab".into(), RType::func(vec![], vec![], vec![])),
            ("b".into(), RType::func(vec![RType::Nat], vec![RType::Int], vec![Mode::Query])),
            ("query it".into(), RType::func(vec![RType::vec(RType::Nat8)], vec![], vec![Mode::Oneway])),
        ])
    }
    fn same(&self, o: &Self) -> bool {
        self == o
    }
    fn kind() -> &'static str {
        "reference"
    }
}

#[derive(CandidType, Deserialize, Debug, Clone)]
pub struct Big {
    pub id: u64,
    pub name: String,
    pub balance: Nat,
    pub delta: Int,
    pub owner: Principal,
    pub tags: Vec<String>,
    pub attrs: BTreeMap<String, Int>,
    pub scores: BTreeMap<Nat, Vec<u8>>,
    pub shape: Option<Shape>,
    pub cb: Option<MyFunc>,
    pub pos: (f32, f32),
    pub hist: List,
}
corpus_struct!(Big, "Big".into(), rec = false, {
    id: u64 => "id", name: String => "name", balance: Nat => "balance", delta: Int => "delta",
    owner: Principal => "owner", tags: Vec<String> => "tags", attrs: BTreeMap<String, Int> => "attrs",
    scores: BTreeMap<Nat, Vec<u8>> => "scores", shape: Option<Shape> => "shape", cb: Option<MyFunc> => "cb",
    pos: (f32, f32) => "pos", hist: List => "hist"
});
