#![allow(non_camel_case_types)]
//! Corpus of Rust types with a known abstract meaning: every type knows how to generate a value,
//! what its Candid type is (as a model type, independent of candid's derivation) and what abstract
//! value a native value denotes.
use vh_core::gen::values::{gen_bigint, gen_biguint, gen_principal, gen_text};
use vh_core::model::misc::label_hash;
use vh_core::model::*;
use vh_core::rng::Rng;
use candid::{Int, Nat, Principal, Reserved};
use std::collections::{BTreeMap, BTreeSet, BinaryHeap, HashMap, HashSet, LinkedList, VecDeque};

pub mod derived;
pub mod registry;

/// Type builder: lets recursive types refer to themselves.
#[derive(Default)]
pub struct TB {
    pub env: REnv,
    memo: HashMap<String, usize>,
}
impl TB {
    pub fn rec<T: Corpus>(&mut self) -> RType {
        let name = T::cname();
        if let Some(i) = self.memo.get(&name) {
            return RType::Ref(*i);
        }
        let i = self.env.0.len();
        self.env.0.push(RType::Empty);
        self.memo.insert(name, i);
        let body = T::body(self);
        self.env.0[i] = body;
        RType::Ref(i)
    }
}

pub trait Corpus: candid::CandidType + serde::de::DeserializeOwned + 'static {
    fn cname() -> String;
    fn gen(rng: &mut Rng, fuel: &mut i64) -> Self;
    fn model(&self) -> RValue;
    /// structure of the type; recursive types override `rtype` to go through `TB::rec`
    fn body(tb: &mut TB) -> RType;
    fn rtype(tb: &mut TB) -> RType {
        Self::body(tb)
    }
    fn same(&self, o: &Self) -> bool;
    /// container kind for coverage counters
    fn kind() -> &'static str {
        "leaf"
    }
}

macro_rules! leaf {
    ($t:ty, $name:expr, $rt:expr, |$r:ident, $f:ident| $gen:expr, |$s:ident| $model:expr, |$a:ident, $b:ident| $same:expr) => {
        impl Corpus for $t {
            fn cname() -> String {
                $name.to_string()
            }
            fn gen($r: &mut Rng, $f: &mut i64) -> Self {
                *$f -= 1;
                $gen
            }
            fn model(&self) -> RValue {
                let $s = self;
                $model
            }
            fn body(_tb: &mut TB) -> RType {
                $rt
            }
            fn same(&self, o: &Self) -> bool {
                let ($a, $b) = (self, o);
                $same
            }
        }
    };
}

fn bnd(rng: &mut Rng, bits: u32) -> u64 {
    let max = if bits == 64 { u64::MAX } else { (1u64 << bits) - 1 };
    match rng.below(6) {
        0 => 0,
        1 => max,
        2 => max >> 1,
        3 => (max >> 1) + 1,
        4 => 1 + rng.below(3),
        _ => rng.next() & max,
    }
}
fn gen_float64(rng: &mut Rng) -> f64 {
    match rng.below(8) {
        0 => f64::NAN,
        1 => f64::from_bits(0x7ff8_0000_0000_0001 | (rng.next() & 0xf_ffff)), // NaN payloads
        2 => f64::INFINITY,
        3 => -0.0,
        4 => f64::from_bits(rng.next()),
        _ => vh_core::gen::values::gen_f64(rng),
    }
}
fn gen_float32(rng: &mut Rng) -> f32 {
    match rng.below(8) {
        0 => f32::NAN,
        1 => f32::from_bits(0x7fc0_0001 | (rng.next() as u32 & 0xffff)),
        2 => f32::NEG_INFINITY,
        3 => -0.0,
        4 => f32::from_bits(rng.next() as u32),
        _ => vh_core::gen::values::gen_f32(rng),
    }
}

leaf!(bool, "bool", RType::Bool, |r, _f| r.bool(), |s| RValue::Bool(*s), |a, b| a == b);
leaf!(u8, "u8", RType::Nat8, |r, _f| bnd(r, 8) as u8, |s| RValue::Nat8(*s), |a, b| a == b);
leaf!(u16, "u16", RType::Nat16, |r, _f| bnd(r, 16) as u16, |s| RValue::Nat16(*s), |a, b| a == b);
leaf!(u32, "u32", RType::Nat32, |r, _f| bnd(r, 32) as u32, |s| RValue::Nat32(*s), |a, b| a == b);
leaf!(u64, "u64", RType::Nat64, |r, _f| bnd(r, 64), |s| RValue::Nat64(*s), |a, b| a == b);
leaf!(usize, "usize", RType::Nat64, |r, _f| bnd(r, 64) as usize, |s| RValue::Nat64(*s as u64), |a, b| a == b);
leaf!(i8, "i8", RType::Int8, |r, _f| bnd(r, 8) as i8, |s| RValue::Int8(*s), |a, b| a == b);
leaf!(i16, "i16", RType::Int16, |r, _f| bnd(r, 16) as i16, |s| RValue::Int16(*s), |a, b| a == b);
leaf!(i32, "i32", RType::Int32, |r, _f| bnd(r, 32) as i32, |s| RValue::Int32(*s), |a, b| a == b);
leaf!(i64, "i64", RType::Int64, |r, _f| bnd(r, 64) as i64, |s| RValue::Int64(*s), |a, b| a == b);
leaf!(isize, "isize", RType::Int64, |r, _f| bnd(r, 64) as isize, |s| RValue::Int64(*s as i64), |a, b| a == b);
leaf!(f32, "f32", RType::Float32, |r, _f| gen_float32(r), |s| RValue::Float32(s.to_bits()), |a, b| a.to_bits()
    == b.to_bits());
leaf!(f64, "f64", RType::Float64, |r, _f| gen_float64(r), |s| RValue::Float64(s.to_bits()), |a, b| a.to_bits()
    == b.to_bits());
leaf!(
    u128,
    "u128",
    RType::Nat,
    |r, _f| match r.below(5) {
        0 => 0,
        1 => u128::MAX,
        2 => 1u128 << 127,
        3 => (1u128 << 64) + r.below(3) as u128 - 1,
        _ => (r.next() as u128) << 64 | r.next() as u128,
    },
    |s| RValue::Nat(num_bigint::BigUint::from(*s)),
    |a, b| a == b
);
leaf!(
    i128,
    "i128",
    RType::Int,
    |r, _f| match r.below(6) {
        0 => 0,
        1 => i128::MAX,
        2 => i128::MIN,
        3 => -1,
        4 => (1i128 << 64) - r.below(3) as i128,
        _ => ((r.next() as u128) << 64 | r.next() as u128) as i128,
    },
    |s| RValue::Int(num_bigint::BigInt::from(*s)),
    |a, b| a == b
);
leaf!(Nat, "Nat", RType::Nat, |r, _f| Nat(gen_biguint(r)), |s| RValue::Nat(s.0.clone()), |a, b| a == b);
leaf!(Int, "Int", RType::Int, |r, _f| Int(gen_bigint(r)), |s| RValue::Int(s.0.clone()), |a, b| a == b);
leaf!(String, "String", RType::Text, |r, f| if *f <= 0 { String::new() } else { gen_text(r) }, |s| RValue::Text(
    s.clone()
), |a, b| a == b);
leaf!((), "unit", RType::Null, |_r, _f| (), |_s| RValue::Null, |_a, _b| true);
leaf!(Reserved, "Reserved", RType::Reserved, |_r, _f| Reserved, |_s| RValue::Reserved, |_a, _b| true);
leaf!(
    Principal,
    "Principal",
    RType::Principal,
    |r, _f| Principal::try_from_slice(&gen_principal(r)).unwrap(),
    |s| RValue::Principal(s.as_slice().to_vec()),
    |a, b| a == b
);
leaf!(
    serde_bytes::ByteBuf,
    "ByteBuf",
    RType::vec(RType::Nat8),
    |r, f| {
        let n = if *f <= 0 { 0 } else { r.usize(20) };
        serde_bytes::ByteBuf::from(r.bytes(n))
    },
    |s| RValue::blob(s.as_ref()),
    |a, b| a == b
);

fn gen_len(rng: &mut Rng, fuel: &i64) -> usize {
    if *fuel <= 0 {
        0
    } else {
        match rng.below(8) {
            0 => 0,
            1 => 1,
            7 => 5 + rng.usize(12),
            _ => 1 + rng.usize(4),
        }
    }
}

impl<T: Corpus> Corpus for Option<T> {
    fn cname() -> String {
        format!("Option<{}>", T::cname())
    }
    fn gen(rng: &mut Rng, fuel: &mut i64) -> Self {
        *fuel -= 1;
        if *fuel <= 0 || rng.chance(1, 4) {
            None
        } else {
            Some(T::gen(rng, fuel))
        }
    }
    fn model(&self) -> RValue {
        match self {
            None => RValue::Null,
            Some(v) => RValue::opt(v.model()),
        }
    }
    fn body(tb: &mut TB) -> RType {
        RType::opt(T::rtype(tb))
    }
    fn same(&self, o: &Self) -> bool {
        match (self, o) {
            (None, None) => true,
            (Some(a), Some(b)) => a.same(b),
            _ => false,
        }
    }
    fn kind() -> &'static str {
        "Option"
    }
}
impl<T: Corpus> Corpus for Box<T> {
    fn cname() -> String {
        format!("Box<{}>", T::cname())
    }
    fn gen(rng: &mut Rng, fuel: &mut i64) -> Self {
        Box::new(T::gen(rng, fuel))
    }
    fn model(&self) -> RValue {
        (**self).model()
    }
    fn body(tb: &mut TB) -> RType {
        T::rtype(tb)
    }
    fn same(&self, o: &Self) -> bool {
        (**self).same(o)
    }
    fn kind() -> &'static str {
        "Box"
    }
}

macro_rules! seq_like {
    ($c:ident, $kind:expr, [$($bound:tt)*], |$v:ident| $from_vec:expr, |$s:ident| $iter:expr, |$a:ident, $b:ident| $same:expr) => {
        impl<T: Corpus $($bound)*> Corpus for $c<T> {
            fn cname() -> String {
                format!("{}<{}>", $kind, T::cname())
            }
            fn gen(rng: &mut Rng, fuel: &mut i64) -> Self {
                *fuel -= 1;
                let n = gen_len(rng, fuel);
                let $v: Vec<T> = (0..n).map(|_| T::gen(rng, fuel)).collect();
                $from_vec
            }
            fn model(&self) -> RValue {
                let $s = self;
                RValue::Vec($iter.map(|x| x.model()).collect())
            }
            fn body(tb: &mut TB) -> RType {
                RType::vec(T::rtype(tb))
            }
            fn same(&self, o: &Self) -> bool {
                let ($a, $b) = (self, o);
                $same
            }
            fn kind() -> &'static str {
                $kind
            }
        }
    };
}
fn seq_same<'a, T: Corpus>(a: impl Iterator<Item = &'a T>, b: impl Iterator<Item = &'a T>) -> bool {
    let a: Vec<&T> = a.collect();
    let b: Vec<&T> = b.collect();
    a.len() == b.len() && a.iter().zip(b.iter()).all(|(x, y)| x.same(y))
}
seq_like!(Vec, "Vec", [], |v| v, |s| s.iter(), |a, b| seq_same(a.iter(), b.iter()));
seq_like!(VecDeque, "VecDeque", [], |v| v.into_iter().collect(), |s| s.iter(), |a, b| seq_same(a.iter(), b.iter()));
seq_like!(LinkedList, "LinkedList", [], |v| v.into_iter().collect(), |s| s.iter(), |a, b| seq_same(
    a.iter(),
    b.iter()
));
seq_like!(BTreeSet, "BTreeSet", [+ Ord], |v| v.into_iter().collect(), |s| s.iter(), |a, b| a == b);
seq_like!(HashSet, "HashSet", [+ std::hash::Hash + Eq], |v| v.into_iter().collect(), |s| s.iter(), |a, b| a == b);
seq_like!(BinaryHeap, "BinaryHeap", [+ Ord + Clone], |v| v.into_iter().collect(), |s| s.iter(), |a, b| a
    .clone()
    .into_sorted_vec()
    == b.clone().into_sorted_vec());

impl<T: Corpus, const N: usize> Corpus for [T; N]
where
    [T; N]: serde::de::DeserializeOwned,
{
    fn cname() -> String {
        format!("[{};{}]", T::cname(), N)
    }
    fn gen(rng: &mut Rng, fuel: &mut i64) -> Self {
        *fuel -= 1;
        std::array::from_fn(|_| T::gen(rng, fuel))
    }
    fn model(&self) -> RValue {
        RValue::Vec(self.iter().map(|x| x.model()).collect())
    }
    fn body(tb: &mut TB) -> RType {
        RType::vec(T::rtype(tb))
    }
    fn same(&self, o: &Self) -> bool {
        seq_same(self.iter(), o.iter())
    }
    fn kind() -> &'static str {
        "array"
    }
}

macro_rules! map_like {
    ($c:ident, $kind:expr, [$($bound:tt)*]) => {
        impl<K: Corpus $($bound)*, V: Corpus> Corpus for $c<K, V> {
            fn cname() -> String {
                format!("{}<{},{}>", $kind, K::cname(), V::cname())
            }
            fn gen(rng: &mut Rng, fuel: &mut i64) -> Self {
                *fuel -= 1;
                let n = gen_len(rng, fuel);
                (0..n).map(|_| (K::gen(rng, fuel), V::gen(rng, fuel))).collect()
            }
            fn model(&self) -> RValue {
                RValue::Vec(
                    self.iter()
                        .map(|(k, v)| RValue::Record(vec![(0, k.model()), (1, v.model())]))
                        .collect(),
                )
            }
            fn body(tb: &mut TB) -> RType {
                let k = K::rtype(tb);
                let v = V::rtype(tb);
                RType::vec(RType::Record(vec![(0, k), (1, v)]))
            }
            fn same(&self, o: &Self) -> bool {
                self.len() == o.len() && self.iter().all(|(k, v)| o.get(k).map(|w| v.same(w)).unwrap_or(false))
            }
            fn kind() -> &'static str {
                $kind
            }
        }
    };
}
map_like!(BTreeMap, "BTreeMap", [+ Ord]);
map_like!(HashMap, "HashMap", [+ std::hash::Hash + Eq]);

macro_rules! tuple_impl {
    ($($n:tt $t:ident),+) => {
        impl<$($t: Corpus),+> Corpus for ($($t,)+) {
            fn cname() -> String {
                let parts: Vec<String> = vec![$($t::cname()),+];
                format!("({})", parts.join(","))
            }
            fn gen(rng: &mut Rng, fuel: &mut i64) -> Self {
                *fuel -= 1;
                ($($t::gen(rng, fuel),)+)
            }
            fn model(&self) -> RValue {
                RValue::Record(vec![$(($n, self.$n.model())),+])
            }
            fn body(tb: &mut TB) -> RType {
                RType::Record(vec![$(($n, $t::rtype(tb))),+])
            }
            fn same(&self, o: &Self) -> bool {
                true $(&& self.$n.same(&o.$n))+
            }
            fn kind() -> &'static str {
                "tuple"
            }
        }
    };
}
tuple_impl!(0 A);
tuple_impl!(0 A, 1 B);
tuple_impl!(0 A, 1 B, 2 C);
tuple_impl!(0 A, 1 B, 2 C, 3 D);

impl<T: Corpus, E: Corpus> Corpus for Result<T, E> {
    fn cname() -> String {
        format!("Result<{},{}>", T::cname(), E::cname())
    }
    fn gen(rng: &mut Rng, fuel: &mut i64) -> Self {
        *fuel -= 1;
        if rng.bool() {
            Ok(T::gen(rng, fuel))
        } else {
            Err(E::gen(rng, fuel))
        }
    }
    fn model(&self) -> RValue {
        match self {
            Ok(v) => RValue::Variant(label_hash("Ok"), Box::new(v.model())),
            Err(e) => RValue::Variant(label_hash("Err"), Box::new(e.model())),
        }
    }
    fn body(tb: &mut TB) -> RType {
        let t = T::rtype(tb);
        let e = E::rtype(tb);
        RType::variant(vec![(label_hash("Ok"), t), (label_hash("Err"), e)])
    }
    fn same(&self, o: &Self) -> bool {
        match (self, o) {
            (Ok(a), Ok(b)) => a.same(b),
            (Err(a), Err(b)) => a.same(b),
            _ => false,
        }
    }
    fn kind() -> &'static str {
        "Result"
    }
}
