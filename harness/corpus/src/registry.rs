//! Registry: the cross product of leaves and containers, type-erased behind `TypeOps`.
use crate::derived::*;
use crate::{Corpus, TB};
use vh_core::ctx::{catch, PanicInfo};
use vh_core::model::*;
use vh_core::rng::Rng;
use candid::de::IDLDeserialize;
use candid::ser::IDLBuilder;
use candid::{Decode, DecoderConfig, Int, Nat, Principal, Reserved};
use serde_bytes::ByteBuf;
use std::collections::{BTreeMap, BTreeSet, BinaryHeap, HashMap, HashSet, LinkedList, VecDeque};
use std::marker::PhantomData;

pub enum RtStatus {
    Ok,
    EncodeErr(String),
    DecodeErr(String),
    Mismatch,
    Leftover(String),
    Panic(PanicInfo),
}
pub struct RtOut {
    pub bytes: Vec<u8>,
    pub model: RValue,
    pub decoded_model: Option<RValue>,
    pub status: RtStatus,
}
pub enum DecOut {
    Ok {
        model: RValue,
        reencoded: Result<Vec<u8>, String>,
        cost: DecoderConfig,
    },
    Err(String),
    Panic(PanicInfo),
}

pub trait TypeOps {
    fn name(&self) -> String;
    fn kind(&self) -> &'static str;
    fn rtype(&self) -> (REnv, RType);
    fn ty(&self) -> candid::types::Type;
    fn roundtrip(&self, rng: &mut Rng, fuel: i64) -> RtOut;
    /// encode n values of this type as n arguments; returns bytes and the abstract values
    fn encode_gen(&self, rng: &mut Rng, fuel: i64, n: usize) -> Result<(Vec<u8>, Vec<RValue>), String>;
    /// append one generated value of this type to a builder (heterogeneous messages)
    fn arg_into(&self, b: &mut IDLBuilder, rng: &mut Rng, fuel: i64) -> Result<RValue, String>;
    /// IDLValue::try_from_candid_type on a generated value: (abstract value of the native value, result)
    fn to_idl_value(&self, rng: &mut Rng, fuel: i64) -> (RValue, Result<candid::IDLValue, String>);
    /// decode one argument at this type (surplus arguments are skipped by `done`)
    fn decode(&self, bytes: &[u8], cfg: &DecoderConfig) -> DecOut;
    /// the same decode through one of the other public entry points that take a configuration:
    /// 1 decode_one_with_config, 2 decode_args_with_config, 3 decode_args_with_config_debug (reports the cost),
    /// 4 Decode!([config]; ..), 5 Decode!(@Debug [config]; ..) (reports the cost). `cost` is the default configuration where the entry point does not report one.
    fn decode_via(&self, api: u8, bytes: &[u8], cfg: &DecoderConfig) -> DecOut;
    /// the const-generic quota wrappers (they unwrap, so a failure is a panic carrying the error):
    /// 0 decode_one_with_decoding_quota::<CONST_DQ>, 1 decode_one_with_skipping_quota::<CONST_SQ>, 2 both,
    /// 3..5 the decode_args_* forms. Ok(model) or Err(panic message).
    fn decode_const_quota(&self, which: u8, bytes: &[u8]) -> Result<RValue, String>;
    /// read the next argument of an existing deserializer at this type (sequences of reads on one deserializer,
    /// including reads after an earlier read returned an error)
    fn get_from(&self, de: &mut IDLDeserialize) -> Result<Result<RValue, String>, PanicInfo>;
}
/// quotas baked into the const-generic wrappers instantiated for the corpus
pub const CONST_DQ: usize = 3000;
pub const CONST_SQ: usize = 400;

pub struct Ops<T>(pub PhantomData<T>);

impl<T: Corpus> TypeOps for Ops<T> {
    fn name(&self) -> String {
        T::cname()
    }
    fn kind(&self) -> &'static str {
        T::kind()
    }
    fn rtype(&self) -> (REnv, RType) {
        let mut tb = TB::default();
        let t = T::rtype(&mut tb);
        (tb.env, t)
    }
    fn ty(&self) -> candid::types::Type {
        T::ty()
    }
    fn roundtrip(&self, rng: &mut Rng, fuel: i64) -> RtOut {
        let mut fuel = fuel;
        let v = T::gen(rng, &mut fuel);
        let model = v.model();
        // every public way of encoding one argument (they share the thread-local type memo but not all the set-up code)
        let api = rng.below(7);
        let enc = catch(|| match api {
            0 => candid::encode_one(&v),
            1 => candid::encode_args((&v,)),
            2 => candid::utils::encode_args_ref(&(&v,)),
            3 => {
                let mut out = Vec::new();
                candid::write_args(&mut out, (&v,)).map(|_| out)
            }
            4 => {
                let mut out = Vec::new();
                candid::utils::write_args_ref(&mut out, &(&v,)).map(|_| out)
            }
            _ => {
                let mut b = IDLBuilder::new();
                b.arg(&v).map(|_| ())?;
                b.serialize_to_vec()
            }
        });
        let bytes = match enc {
            Err(p) => {
                return RtOut {
                    bytes: vec![],
                    model,
                    decoded_model: None,
                    status: RtStatus::Panic(p),
                }
            }
            Ok(Err(e)) => {
                return RtOut {
                    bytes: vec![],
                    model,
                    decoded_model: None,
                    status: RtStatus::EncodeErr(e.to_string()),
                }
            }
            Ok(Ok(b)) => b,
        };
        let dapi = rng.below(4);
        let dec = catch(|| -> Result<(T, bool, Result<(), String>), String> {
            match dapi {
                0 => return candid::decode_one::<T>(&bytes).map(|w| (w, true, Ok(()))).map_err(|e| e.to_string()),
                1 => return candid::decode_args::<(T,)>(&bytes).map(|w| (w.0, true, Ok(()))).map_err(|e| e.to_string()),
                _ => {}
            }
            let mut de = IDLDeserialize::new(&bytes).map_err(|e| e.to_string())?;
            let w: T = de.get_value().map_err(|e| e.to_string())?;
            let done = de.is_done();
            let fin = de.done().map_err(|e| e.to_string());
            Ok((w, done, fin))
        });
        let (status, dm) = match dec {
            Err(p) => (RtStatus::Panic(p), None),
            Ok(Err(e)) => (RtStatus::DecodeErr(e), None),
            Ok(Ok((w, done, fin))) => {
                let dm = w.model();
                if !done {
                    (RtStatus::Leftover("is_done() false after the only argument".into()), Some(dm))
                } else if let Err(e) = fin {
                    (RtStatus::Leftover(e), Some(dm))
                } else if !v.same(&w) {
                    (RtStatus::Mismatch, Some(dm))
                } else {
                    (RtStatus::Ok, Some(dm))
                }
            }
        };
        RtOut {
            bytes,
            model,
            decoded_model: dm,
            status,
        }
    }
    fn encode_gen(&self, rng: &mut Rng, fuel: i64, n: usize) -> Result<(Vec<u8>, Vec<RValue>), String> {
        let mut fuel = fuel;
        let vs: Vec<T> = (0..n).map(|_| T::gen(rng, &mut fuel)).collect();
        let models = vs.iter().map(|v| v.model()).collect();
        let r = catch(|| {
            let mut b = IDLBuilder::new();
            for v in &vs {
                b.arg(v).map(|_| ())?;
            }
            b.serialize_to_vec()
        });
        match r {
            Err(p) => Err(format!("panic|{}", p.sig())),
            Ok(Err(e)) => Err(format!("error|{e}")),
            Ok(Ok(b)) => Ok((b, models)),
        }
    }
    fn arg_into(&self, b: &mut IDLBuilder, rng: &mut Rng, fuel: i64) -> Result<RValue, String> {
        let mut fuel = fuel;
        let v = T::gen(rng, &mut fuel);
        let m = v.model();
        match catch(|| b.arg(&v).map(|_| ())) {
            Err(p) => Err(format!("panic|{}", p.sig())),
            Ok(Err(e)) => Err(format!("error|{e}")),
            Ok(Ok(())) => Ok(m),
        }
    }
    fn to_idl_value(&self, rng: &mut Rng, fuel: i64) -> (RValue, Result<candid::IDLValue, String>) {
        let mut fuel = fuel;
        let v = T::gen(rng, &mut fuel);
        let m = v.model();
        let r = match catch(|| candid::IDLValue::try_from_candid_type(&v)) {
            Err(p) => Err(format!("panic|{}", p.sig())),
            Ok(Err(e)) => Err(format!("error|{e:?}")),
            Ok(Ok(x)) => Ok(x),
        };
        (m, r)
    }
    fn decode(&self, bytes: &[u8], cfg: &DecoderConfig) -> DecOut {
        let r = catch(|| -> Result<(T, DecoderConfig), String> {
            let mut de = IDLDeserialize::new_with_config(bytes, cfg).map_err(|e| format!("{e:?}"))?;
            let w: T = de.get_value().map_err(|e| format!("{e:?}"))?;
            de.done().map_err(|e| format!("{e:?}"))?;
            Ok((w, de.get_config().compute_cost(cfg)))
        });
        match r {
            Err(p) => DecOut::Panic(p),
            Ok(Err(e)) => DecOut::Err(e),
            Ok(Ok((w, cost))) => {
                let model = w.model();
                let reencoded = match catch(|| {
                    let mut b = IDLBuilder::new();
                    b.arg(&w).map(|_| ())?;
                    b.serialize_to_vec()
                }) {
                    Err(p) => Err(format!("panic|{}", p.sig())),
                    Ok(Err(e)) => Err(e.to_string()),
                    Ok(Ok(b)) => Ok(b),
                };
                DecOut::Ok {
                    model,
                    reencoded,
                    cost,
                }
            }
        }
    }
    fn decode_via(&self, api: u8, bytes: &[u8], cfg: &DecoderConfig) -> DecOut {
        let r = catch(|| -> Result<(T, DecoderConfig), String> {
            match api {
                1 => candid::utils::decode_one_with_config::<T>(bytes, cfg).map(|w| (w, DecoderConfig::new())).map_err(|e| format!("{e:?}")),
                2 => candid::utils::decode_args_with_config::<(T,)>(bytes, cfg).map(|w| (w.0, DecoderConfig::new())).map_err(|e| format!("{e:?}")),
                3 => candid::utils::decode_args_with_config_debug::<(T,)>(bytes, cfg).map(|(w, c)| (w.0, c)).map_err(|e| format!("{e:?}")),
                4 => Decode!([cfg.clone()]; bytes, T).map(|w| (w, DecoderConfig::new())).map_err(|e| format!("{e:?}")),
                _ => Decode!(@Debug [cfg.clone()]; bytes, T).map_err(|e| format!("{e:?}")),
            }
        });
        match r {
            Err(p) => DecOut::Panic(p),
            Ok(Err(e)) => DecOut::Err(e),
            Ok(Ok((w, cost))) => DecOut::Ok {
                model: w.model(),
                reencoded: Err("not computed".into()),
                cost,
            },
        }
    }
    fn get_from(&self, de: &mut IDLDeserialize) -> Result<Result<RValue, String>, PanicInfo> {
        catch(|| de.get_value::<T>().map(|w| w.model()).map_err(|e| format!("{e:?}")))
    }
    fn decode_const_quota(&self, which: u8, bytes: &[u8]) -> Result<RValue, String> {
        let b = bytes.to_vec();
        let r = catch(|| -> T {
            match which {
                0 => candid::utils::decode_one_with_decoding_quota::<CONST_DQ, T>(b),
                1 => candid::utils::decode_one_with_skipping_quota::<CONST_SQ, T>(b),
                2 => candid::utils::decode_one_with_decoding_and_skipping_quota::<CONST_DQ, CONST_SQ, T>(b),
                3 => candid::utils::decode_args_with_decoding_quota::<CONST_DQ, (T,)>(b).0,
                4 => candid::utils::decode_args_with_skipping_quota::<CONST_SQ, (T,)>(b).0,
                _ => candid::utils::decode_args_with_decoding_and_skipping_quota::<CONST_DQ, CONST_SQ, (T,)>(b).0,
            }
        });
        match r {
            Ok(w) => Ok(w.model()),
            Err(p) => Err(format!("{}|{}", p.location, p.message)),
        }
    }
}

pub type Entry = Box<dyn TypeOps>;


macro_rules! reg {
    ($v:ident; $($t:ty),* $(,)?) => { $( $v.push(Box::new(Ops::<$t>(PhantomData)) as Entry); )* };
}
/// every leaf under the sequence-like containers
macro_rules! under_seq {
    ($v:ident; $($t:ty),* $(,)?) => { $(
        reg!($v; $t, Option<$t>, Vec<$t>, Box<$t>, VecDeque<$t>, LinkedList<$t>, [$t; 3], ($t,), Option<Vec<$t>>, Vec<Option<$t>>, Option<Option<$t>>);
    )* };
}
macro_rules! under_set {
    ($v:ident; $($t:ty),* $(,)?) => { $(
        reg!($v; BTreeSet<$t>, HashSet<$t>, BinaryHeap<$t>);
    )* };
}
macro_rules! maps {
    ($v:ident; [$($k:ty),*] ; $vals:tt) => { $( maps!(@k $v; $k; $vals); )* };
    (@k $v:ident; $k:ty; [$($val:ty),*]) => { $(
        reg!($v; BTreeMap<$k, $val>, HashMap<$k, $val>);
    )* };
}

pub fn registry() -> Vec<Entry> {
    let mut v: Vec<Entry> = Vec::new();
    under_seq!(v; bool, u8, u16, u32, u64, usize, i8, i16, i32, i64, isize, f32, f64, u128, i128, Nat, Int, String, (),
        Reserved, Principal, ByteBuf, Point, Renamed, TupleS, Newtype, UnitS, Color, Shape, List, Tree, MutA, MutB,
        WithBytes, MyFunc, MyServ, Generic<u8>, Generic<String>, Generic<Nat>);
    under_set!(v; bool, u8, u64, i32, Nat, Int, String, Principal, Color, (u8, String));
    maps!(v; [String, u8, u64, i32, bool, Nat, Int, Principal, (u8, String)];
        [u8, u64, Nat, Int, String, bool, i128, Principal, Option<Int>, Vec<Nat>, Point, f64]);
    reg!(v;
        (u8, String), (Nat, Int, u8), (bool, (), f32, Vec<u8>), (Int, Nat), (String, String),
        Result<Nat, String>, Result<(), Int>, Result<Vec<u8>, Shape>, Option<Result<u8, u8>>,
        Vec<(String, Nat)>, Vec<(Int, Nat)>, Vec<(String, String)>, Vec<Vec<u8>>, Vec<Vec<Nat>>, Vec<Vec<Vec<bool>>>,
        Vec<BTreeMap<String, Nat>>, BTreeMap<String, BTreeMap<u8, Int>>, BTreeMap<String, BTreeMap<String, Nat>>,
        BTreeMap<u8, BTreeMap<String, Int>>, Option<BTreeMap<Int, Nat>>, BTreeMap<String, Vec<Int>>,
        BTreeMap<Nat, Option<Nat>>, HashMap<String, Vec<(Int, Nat)>>, Big, Vec<Big>, Option<Box<List>>,
        (List, Tree), BTreeMap<String, List>, Vec<Result<Int, Nat>>, [u8; 0], [Nat; 1], [u64; 8], [String; 2],
        BTreeMap<String, [u8; 3]>, Option<(Nat, Int)>, Vec<Option<Vec<Option<Int>>>>, Generic<Generic<u8>>,
        Generic<List>, BTreeMap<Principal, Vec<MyFunc>>, Vec<ByteBuf>, BTreeMap<String, ByteBuf>,
        MyServ2, Option<MyServ2>, Vec<MyServ2>, (MyServ2, MyServ), BTreeMap<String, MyServ2>,
    );
    under_seq!(v; NtBool, NtU8, NtI16, NtU32, NtU64, NtF64, NtNat, NtText);
    reg!(v;
        Vec<Box<u32>>, Vec<Box<f64>>, Vec<Box<u8>>, Vec<Box<bool>>, [Box<i16>; 3], Vec<Box<NtU32>>, Vec<Box<Nat>>,
        BTreeMap<String, Vec<NtU32>>, Vec<Vec<NtU64>>, Vec<Box<usize>>, Option<Vec<Box<i64>>>,
    );
    v
}

thread_local! {
    static REG: Vec<Entry> = registry();
}
/// Number of corpus types.
pub fn len() -> usize {
    REG.with(|r| r.len())
}
/// Run `f` with the i-th entry.
pub fn with<R>(i: usize, f: impl FnOnce(&dyn TypeOps) -> R) -> R {
    REG.with(|r| f(r[i % r.len()].as_ref()))
}
