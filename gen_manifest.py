#!/usr/bin/env python3
"""Refresh the per-check claim text / notes of MANIFEST.json from props.py (everything else is kept)."""
import json, os, sys
sys.path.insert(0, os.path.dirname(os.path.abspath(__file__)))
import props
path = os.path.join(os.path.dirname(os.path.abspath(__file__)), "MANIFEST.json")
m = json.load(open(path))
for c in m["checks"]:
    p = props.PROPS[c["property_id"]]
    c["level_claimed"]["text"] = "Held on the executions of this run only: " + p["rule"][:700]
    if p.get("assumptions"):
        c["level_note"] = "; ".join(p["assumptions"])
json.dump(m, open(path, "w"), indent=1)
